"""C12 — a reply completes exactly the requests it answers; a timeout is a timeout (DESIGN §3 C12)."""
from __future__ import annotations

import asyncio

from hypothesis import strategies as st

from vfw import simloop, simnet, simworld
from vfw.runner import CaseResult

PROPERTY = 'C12'
LEVEL = 'exploration'
RULE = (
    "Case = 1..4 pending requests (api in {wait_for_server_message, wait_for_peer_message, create_*_response_future "
    "+ timeout as SoulSeekClient.execute does, register_response_future}; message class; peer; field matchers incl. "
    "callable matchers; timeout 0 | 3..40 ticks, 0 being the used-up remaining budget max(0.0, deadline - now) that must raise TimeoutError in the next loop iteration; start tick; optional cancellation tick) and <=8 incoming messages over the server "
    "connection and two peer connections of a real Network on the in-memory TCP layer (matching one, several or no "
    "request; wrong peer; right class wrong field; optionally glued to the previous message in one TCP segment so "
    "both are processed back-to-back; optionally the expected peer's message connection closes by EOF / reset and the peer comes back on a fresh connection 0..4 ticks later, replies then travel over the new connection; the close happens BEFORE what is written in its tick (that then travels over the new connection) or AFTER it (message + FIN in the same instant on the existing connection: what was written before the FIN is delivered and handled, TCP is ordered); the server may close its connection in the same two ways (it does not come back: what it would have sent later is not part of the history); optionally a peer delivers a message over a connection of its own that it opens for it (PeerInit + message(s) in one segment or in two writes of the same instant, optionally + FIN in the same instant: a reply from the expected peer whatever connection carries it); optionally application listeners of MessageReceivedEvent that raise (function / coroutine, at once or after zero-length waits); optionally 1..2 application listeners of MessageReceivedEvent that really SUSPEND: the k-th message of a connection keeps the listener busy for plan[k mod len(plan)] = nothing | 1..5 loop iterations | 0.2..3.0 ms of virtual time (connections only close by EOF in such cases, so the FIN can arrive while the reader is still busy and further messages wait in the read buffer); optionally create_peer_connection('a'|'b') calls that need the same GetPeerAddress reply and are cancelled a few ticks later; in 1 case of 5 a SECOND Network object lives in the same process and loop (own EventBus, own session on the simulated server, own connections of the same two peer user names): about half of the incoming messages are then delivered to the second network only and a quarter of the requests are registered on it), all on a 1 ms tick grid with 1 ms latency. Oracle (reference model, first "
    "match, derived from DataConnection._message_reader_loop / Network.on_message_received / EventBus.emit): the messages of a connection OBJECT are handled strictly one after the other in arrival order (different connection objects of one peer are handled independently; two matching messages handled in the same instant on different objects are a tie); the handling of a message starts at max(its arrival, end of the handling of the previous message of that connection) and ends after the sum of the listener suspensions, and the pending requests see the message at the END of its handling (exact integer microseconds; without suspending listeners that is the arrival). A request completes with the first message whose handling ends strictly after its registration and strictly "
    "before its deadline/cancellation that has the expected class, comes from the expected server/peer connection "
    "and satisfies all field matchers and was received by the Network object the request was registered on (a message that only the other Network received, same class / peer name / field values, completes nothing here: C12/completed-by-message-of-another-network, C12/wrong-connection; residue and probe are checked for each network, and a probe request of network 0 must not be completed by a message sent to network 1) (the completing message is identified as an OBJECT: the k-th object handed to on_message_received for a connection is the k-th message sent on it, so a later equal-valued message is told apart); the order in which the handling of the messages of a connection ends, and the order in which a recording listener registered behind the others sees them, equals the arrival order; otherwise TimeoutError (cancelled caller: CancelledError) and never another "
    "exception; every request is over 200 ms after the start of the history (C12/request-never-finished otherwise: a hung caller); on_message_received never raises; afterwards the pending list is empty, the loop recorded no "
    "error, and a probe request registered after the history is still completed by its reply. Events that fall on "
    "the same instant as a registration/deadline/cancellation are ties: both orders are accepted. Non-trivial = two "
    "requests answered by one message, or two matching messages glued in one segment, or an arrival within one tick "
    "of a deadline/cancellation, or a request and a create_peer_connection() call that need the same address reply, or a matching message that waited in the read buffer while a listener was busy with the previous one, or a request registered while the message that answers it was being handled, or an answer that is the last thing written before the FIN of its connection; distinct = distinct case document. "
    "Command tier (checks/c12_cmd.py): SoulSeekClient.execute(command, response=True) for 11 commands against the simulated server / scripted peers with <=3 scripted replies (the correct one and near misses: other user / room / text / ticket / directory / peer), optional write back pressure on the server connection, and optionally the run-time settings change settings.credentials.username = <other name> (incl. the user name of the near-miss echo) right before execute() while the session of the logged-in user stays active: the server keeps echoing RoomChatMessage / RoomTickerAdded with the SESSION user; the request completes with the first correct reply inside the timeout and with nothing else."
)
ASSUMPTIONS = [
    "every delivery has strictly positive latency (1 ms); requests, deadlines and arrivals live on a 1 ms grid",
    "completion order among several waiters answered by one message is not constrained",
    "callable matchers are part of the public `fields` contract: all matchers of a request must hold",
    "a listener of MessageReceivedEvent that suspends delays both the completion of the requests the message answers "
    "and the reading of the following messages of that connection (on_message_received awaits EventBus.emit before it "
    "completes futures; the reader awaits on_message_received): the model follows the code here, the property only "
    "fixes WHICH message completes a request; suspensions of 1..5 loop iterations take no virtual time",
    "with suspending listeners connections close by EOF only (a reset discards the messages that still wait in the read "
    "buffer); after an EOF everything written before it is still read and handled (confirmed on the reference tree)",
    "a message written in the same instant as the FIN of its connection, before it, is delivered: the in-memory TCP "
    "hands data and EOF to the reader in consecutive loop iterations of one virtual instant",
    "a wait with timeout 0 is legal (remaining-budget idiom) and raises TimeoutError; a message handled in the very "
    "instant of the registration is a tie",
    "the server closing its connection by EOF is not followed by a reconnect (Network stops the watchdog on EOF); a "
    "server close is not combined with create_peer_connection() calls: a request written to the closed socket is answered "
    "by a RST which discards what the client has not read yet (loss by the network, not by the library)",
    "several Network objects in one process are independent: nothing in the library documents shared state between "
    "them; the second network has no listeners and its connections never close",
    "the echo of a room message / ticker carries the name of the logged-in (session) user; credentials stored in the "
    "settings afterwards are for the next login and do not change what answers a pending command",
]
BUDGET_S = {'quick': 150, 'thorough': 1500}

TICK = 0.001
USERS = ['a', 'b']
SERVER_CLASSES = ['AddUser', 'GetUserStatus', 'GetPeerAddress']
PEER_CLASSES = ['PeerPlaceInQueueReply', 'PeerUploadFailed', 'PeerTransferReply']
FIELDS = {
    'AddUser': {'username': USERS, 'exists': [False]},
    'GetUserStatus': {'username': USERS, 'status': [0, 1, 2], 'privileged': [False, True]},
    'GetPeerAddress': {'username': USERS, 'port': [0, 1]},
    'PeerPlaceInQueueReply': {'filename': ['f', 'g'], 'place': [0, 1]},
    'PeerUploadFailed': {'filename': ['f', 'g']},
    'PeerTransferReply': {'ticket': [1, 2], 'reason': ['x', 'y']},
}
APIS = ['wait', 'future', 'register']


def _cls(name):
    from aioslsk.protocol import messages as M
    c = getattr(M, name)
    return c.Response if name in SERVER_CLASSES else c.Request


def _build(name, values):
    from aioslsk.protocol import messages as M
    v = {k: values.get(k, FIELDS[name][k][0]) for k in FIELDS[name]}
    if name == 'AddUser':
        return M.AddUser.Response(v['username'], exists=False)
    if name == 'GetUserStatus':
        return M.GetUserStatus.Response(v['username'], v['status'], v['privileged'])
    if name == 'GetPeerAddress':
        return M.GetPeerAddress.Response(v['username'], '1.2.3.4', v['port'], 0, 0)
    if name == 'PeerPlaceInQueueReply':
        return M.PeerPlaceInQueueReply.Request(v['filename'], v['place'])
    if name == 'PeerUploadFailed':
        return M.PeerUploadFailed.Request(v['filename'])
    return M.PeerTransferReply.Request(v['ticket'], False, reason=v['reason'])


# ---------------------------------------------------------------------------
# strategies

@st.composite
def _matcher(draw, name):
    out = {}
    for fname, dom in FIELDS[name].items():
        mode = draw(st.sampled_from(['skip', 'skip', 'eq', 'eq', 'eq', 'fn_eq', 'fn_ne']))
        if mode == 'skip':
            continue
        v = draw(st.sampled_from(dom))
        out[fname] = v if mode == 'eq' else {'fn': mode[3:], 'v': v}
    return out


@st.composite
def case_strategy(draw):
    n_req = draw(st.integers(1, 4))
    reqs = []
    for _ in range(n_req):
        conn = draw(st.sampled_from(['server', 'server', 'peer0', 'peer1']))
        name = draw(st.sampled_from(SERVER_CLASSES if conn == 'server' else PEER_CLASSES))
        # occasionally wait for a class on the wrong kind of connection (never matches)
        # 0 = the 'remaining budget is used up' value (max(0.0, deadline - now)): times out in the next loop iteration
        timeout = draw(st.sampled_from([0, 3, 3, 5, 5, 8, 8, 12, 12, 40, 40]))
        at = draw(st.integers(0, 12))
        cancel = draw(st.none() | st.integers(1, 14))
        reqs.append({'api': draw(st.sampled_from(APIS)), 'conn': conn, 'cls': name,
                     'fields': draw(_matcher(name)), 'timeout': timeout, 'at': at, 'cancel': cancel})
    inc = []
    n_inc = draw(st.integers(0, 8))
    for _ in range(n_inc):
        # bias towards answering a drawn request
        if reqs and draw(st.integers(0, 3)) > 0:
            r = draw(st.sampled_from(reqs))
            conn, name = r['conn'], r['cls']
            values = {}
            for fname, dom in FIELDS[name].items():
                m = r['fields'].get(fname)
                if m is not None and draw(st.integers(0, 4)) > 0:
                    values[fname] = m if not isinstance(m, dict) else (
                        m['v'] if m['fn'] == 'eq' else draw(st.sampled_from(dom)))
                else:
                    values[fname] = draw(st.sampled_from(dom))
            if conn != 'server' and draw(st.integers(0, 5)) == 0:
                conn = 'peer1' if conn == 'peer0' else 'peer0'   # wrong peer
        else:
            conn = draw(st.sampled_from(['server', 'peer0', 'peer1']))
            name = draw(st.sampled_from(SERVER_CLASSES if conn == 'server' else PEER_CLASSES))
            values = {fname: draw(st.sampled_from(dom)) for fname, dom in FIELDS[name].items()}
        m = {'conn': conn, 'cls': name, 'values': values, 'at': draw(st.integers(0, 20)),
             'glue': draw(st.booleans())}
        if conn != 'server' and draw(st.integers(0, 7)) == 0:
            # the peer opens a NEW connection to deliver this message: PeerInit + message(s) in one segment ('fresh')
            # or in two writes of the same instant ('fresh2'), and (fin) closes it in the same instant
            m['via'] = draw(st.sampled_from(['fresh', 'fresh', 'fresh2']))
            m['fin'] = draw(st.integers(0, 3)) > 0
        inc.append(m)
    # the expected peer's message connection closes and the peer comes back on a fresh one (0..4 ticks later):
    # a reply over the new connection is still a reply from the expected peer
    # order 'after': the messages of that tick are written first and the connection is closed (FIN) in the same
    # instant: what was sent before the close is still delivered and answers what it answers.  The server may close
    # as well (it does not come back: later server messages of the case are never sent)
    reconn = []
    if draw(st.integers(0, 2)) == 0:
        for _ in range(draw(st.integers(0, 2))):
            conn = draw(st.sampled_from(['peer0', 'peer0', 'peer1', 'peer1', 'server']))
            ticks = sorted({m['at'] for m in inc if m['conn'] == conn and 'via' not in m})
            at = draw(st.sampled_from(ticks)) if ticks and draw(st.integers(0, 2)) > 0 else draw(st.integers(0, 20))
            order_ = draw(st.sampled_from(['before', 'after', 'after']))
            reconn.append({'conn': conn, 'at': at, 'gap': draw(st.integers(0, 4)),
                           'how': 'eof' if order_ == 'after' else draw(st.sampled_from(['eof', 'reset'])),
                           'order': order_})
    # application listeners of MessageReceivedEvent that raise (plain function / coroutine, raising at once or after
    # 1..3 zero-length waits): a failing listener must not keep a reply from completing the requests it answers
    lmode = draw(st.integers(0, 6))
    listeners = draw(st.lists(st.sampled_from(['sync-raise', 'async-raise', 'async-raise-late', 'async-ok']),
                              max_size=2)) if lmode <= 1 else []
    if lmode in (2, 3):
        # application listeners that really SUSPEND while a message is handled: the k-th message of a connection
        # keeps the listener busy for plan[k % len(plan)] (0 = returns at once, 1..5 = that many loop iterations,
        # >= 200 = microseconds of virtual time); completing the pending requests and reading the following
        # (possibly already buffered) messages of that connection wait for it
        for _ in range(draw(st.integers(1, 2))):
            plan = draw(st.lists(st.one_of(st.just(0), st.integers(1, 5), st.integers(2, 30).map(lambda x: x * 100)),
                                 min_size=1, max_size=4))
            listeners.append({'suspend': plan})
        if draw(st.integers(0, 3)) == 0:
            listeners.insert(draw(st.integers(0, len(listeners))),
                             draw(st.sampled_from(['sync-raise', 'async-raise', 'async-raise-late'])))
        for e in reconn:
            e['how'] = 'eof'    # a reset would discard the messages that still wait in the read buffer
    # other library activity that needs the same server reply: create_peer_connection(user) asks for the address of
    # 'a'/'b' (GetPeerAddress) and is cancelled a few ticks later; requests of the case waiting for the same reply
    # are not affected by that
    connects = draw(st.lists(st.fixed_dictionaries({'user': st.sampled_from(USERS), 'at': st.integers(0, 12),
                                                    'cancel': st.integers(1, 14)}), max_size=2)) \
        if draw(st.integers(0, 2)) == 0 else []
    if connects:
        reconn = [e for e in reconn if e['conn'] != 'server']   # see _sanitise: a write to a closed socket -> RST
    case = {'requests': reqs, 'incoming': inc, 'reconn': reconn, 'listeners': listeners, 'connects': connects}
    if draw(st.integers(0, 4)) == 0:
        # a SECOND Network object lives in the same process (own event bus, own server session, own connections of
        # the same two peer users): what one network receives never answers a request of the other one
        case['net2'] = True
        for m in inc:
            if 'via' not in m and draw(st.integers(0, 1)) == 0:
                m['net'] = 1
        for r in reqs:
            if draw(st.integers(0, 3)) == 0:
                r['net'] = 1
    return case


# ---------------------------------------------------------------------------

def _sanitise(case):
    reqs, inc = [], []
    net2 = bool(case.get('net2'))
    for r in (case.get('requests') or [])[:4]:
        try:
            conn = r['conn'] if r['conn'] in ('server', 'peer0', 'peer1') else 'server'
            name = r['cls']
            if name not in FIELDS or (conn == 'server') != (name in SERVER_CLASSES):
                continue
            fields = {}
            for k, v in (r.get('fields') or {}).items():
                if k not in FIELDS[name]:
                    continue
                if isinstance(v, dict):
                    if v.get('fn') not in ('eq', 'ne') or v.get('v') not in FIELDS[name][k]:
                        continue
                    fields[k] = {'fn': v['fn'], 'v': v['v']}
                elif v in FIELDS[name][k] and type(v) is type(FIELDS[name][k][0]):
                    fields[k] = v
            cancel = r.get('cancel')
            reqs.append({'api': r['api'] if r.get('api') in APIS else 'wait', 'conn': conn, 'cls': name,
                         'fields': fields, 'timeout': max(0, min(60, int(r.get('timeout', 5)))),
                         'at': max(0, min(30, int(r.get('at', 0)))),
                         'cancel': None if cancel is None else max(1, min(40, int(cancel))),
                         'net': 1 if (net2 and r.get('net') == 1) else 0})
        except Exception:
            continue
    for m in (case.get('incoming') or [])[:8]:
        try:
            conn = m['conn'] if m['conn'] in ('server', 'peer0', 'peer1') else 'server'
            name = m['cls']
            if name not in FIELDS or (conn == 'server') != (name in SERVER_CLASSES):
                continue
            values = {}
            for k, dom in FIELDS[name].items():
                v = (m.get('values') or {}).get(k, dom[0])
                values[k] = v if (v in dom and type(v) is type(dom[0])) else dom[0]
            net = 1 if (net2 and m.get('net') == 1) else 0
            inc.append({'conn': conn, 'cls': name, 'values': values, 'at': max(0, min(40, int(m.get('at', 0)))),
                        'glue': bool(m.get('glue')), 'net': net,
                        'via': m.get('via') if (conn != 'server' and net == 0 and
                                                m.get('via') in ('fresh', 'fresh2')) else 'main',
                        'fin': bool(m.get('fin'))})
        except Exception:
            continue
    listeners = []
    for x in (case.get('listeners') or [])[:3]:
        if isinstance(x, str) and x in ('sync-raise', 'async-raise', 'async-raise-late', 'async-ok'):
            listeners.append(x)
        elif isinstance(x, dict) and isinstance(x.get('suspend'), list):
            plan = []
            for v in x['suspend'][:4]:
                if isinstance(v, bool) or not isinstance(v, int):
                    continue
                # 0 = no suspension, 1..5 = loop iterations, 200..3000 = microseconds (multiples of 100)
                plan.append(0 if v <= 0 else v if v <= 5 else max(200, min(3000, v // 100 * 100)))
            if plan:
                listeners.append({'suspend': plan})
    reconn = []
    last_open = {}
    # with suspending listeners connections only close by EOF: a reset would discard the messages that still wait in
    # the read buffer
    suspending = any(isinstance(x, dict) for x in listeners)
    has_connects = any(isinstance(e, dict) for e in (case.get('connects') or [])[:3])
    for e in sorted((e for e in (case.get('reconn') or [])[:3] if isinstance(e, dict)),
                    key=lambda e: (int(e.get('at', 0)) if isinstance(e.get('at', 0), int) else 0)):
        try:
            conn = e['conn'] if e.get('conn') in ('peer0', 'peer1', 'server') else 'peer0'
            if conn == 'server' and ('server' in last_open or has_connects):
                # the server does not come back.  No server close together with create_peer_connection() calls: what
                # the client writes to a closed socket is answered by a RST, and a RST discards what the client has not
                # read yet (the network, not the library, loses the message then)
                continue
            at = max(0, min(40, int(e.get('at', 0))))
            gap = 0 if conn == 'server' else max(0, min(6, int(e.get('gap', 0))))
            if conn in last_open and at <= last_open[conn]:
                at = last_open[conn] + 1
            last_open[conn] = at + gap
            order_ = 'after' if e.get('order') == 'after' else 'before'
            how = 'reset' if (e.get('how') == 'reset' and order_ == 'before' and not suspending and
                              conn != 'server') else 'eof'
            reconn.append({'conn': conn, 'at': at, 'gap': gap, 'how': how, 'order': order_})
        except Exception:
            continue
    # nothing can be sent to the client while the peer has no connection: such messages leave when it is back
    # (order 'after': what is written in the tick of the close still leaves over the old connection, before the FIN).
    # Messages over a connection of their own ('fresh') do not depend on the peer's main connection.
    for m in inc:
        for e in reconn:
            if m['conn'] == e['conn'] and m['conn'] != 'server' and m['via'] == 'main' and m['net'] == 0 and \
                    e['at'] + (1 if e['order'] == 'after' else 0) <= m['at'] < e['at'] + e['gap']:
                m['at'] = e['at'] + e['gap']
    # what the server would have sent after it closed the connection is never sent
    for e in reconn:
        if e['conn'] == 'server':
            inc = [m for m in inc if not (m['conn'] == 'server' and m['net'] == 0 and
                                          (m['at'] > e['at'] or (m['at'] == e['at'] and e['order'] == 'before')))]
    connects = []
    for e in (case.get('connects') or [])[:3]:
        try:
            connects.append({'user': e['user'] if e.get('user') in USERS else USERS[0],
                             'at': max(0, min(30, int(e.get('at', 0)))),
                             'cancel': max(1, min(40, int(e.get('cancel', 1))))})
        except Exception:
            continue
    return reqs, inc, reconn, listeners, connects, net2


def _field_ok(matcher, actual):
    if isinstance(matcher, dict):
        return (actual == matcher['v']) if matcher['fn'] == 'eq' else (actual != matcher['v'])
    return actual == matcher


def _matches(req, msg):
    if req['conn'] != msg['conn'] or req['cls'] != msg['cls'] or req.get('net', 0) != msg.get('net', 0):
        return False        # what another Network object received answers nothing here
    return all(_field_ok(m, msg['values'][k]) for k, m in req['fields'].items())


def run_case(case) -> CaseResult:
    res = CaseResult()
    if isinstance(case, dict) and case.get('t') == 'cmd':
        from checks import c12_cmd
        c12_cmd.run_cmd_case(case, res)
        return res
    reqs, inc, reconn, listeners, connects, net2 = _sanitise(case)
    if not reqs:
        return res
    from async_timeout import timeout as atimeout
    from aioslsk.events import EventBus
    from aioslsk.network.connection import PeerConnection, ServerConnection
    from aioslsk.network.network import ExpectedResponse, Network
    from aioslsk.protocol import messages as M

    # delivery schedule: group glued messages (same connection, consecutive) into one segment
    inc_sorted = sorted(enumerate(inc), key=lambda im: (im[1]['at'], im[0]))
    segments = []   # {tick, conn, idxs, via, fin, proc}
    for i, m in inc_sorted:
        if m['glue'] and segments and segments[-1]['conn'] == m['conn'] and segments[-1]['net'] == m['net']:
            segments[-1]['idxs'].append(i)
        else:
            segments.append({'tick': m['at'], 'conn': m['conn'], 'idxs': [i], 'via': m['via'], 'fin': m['fin'],
                             'net': m['net']})

    def _generation(conn, tick):
        # number of re-openings of the peer's main connection that precede the data written at ``tick``: a connection
        # that is closed AFTER the data of its tick and re-opened in the same tick (gap 0) carries that data itself
        n = 0
        for e in reconn:
            if e['conn'] != conn:
                continue
            if e['order'] == 'after' and e['gap'] == 0:
                n += 1 if e['at'] < tick else 0
            else:
                n += 1 if e['at'] + e['gap'] <= tick else 0
        return n
    arrival = {}    # msg index -> arrival tick (send tick + 1), order index
    proc_of = {}    # msg index -> connection OBJECT that carries it (label)
    order = []
    for sg in segments:
        if sg['net'] == 1:
            sg['proc'] = 'B:' + sg['conn']     # the second network: one connection per server / peer, never closed
        elif sg['conn'] == 'server':
            sg['proc'] = 'server'
        elif sg['via'] == 'main':
            sg['proc'] = '%s#m%d' % (sg['conn'], _generation(sg['conn'], sg['tick']))
        else:
            sg['proc'] = '%s#f%d' % (sg['conn'], sg['idxs'][0])
        for i in sg['idxs']:
            arrival[i] = sg['tick'] + 1
            proc_of[i] = sg['proc']
            order.append(i)
    # Handling model (network.py / connection.py): ONE reader per connection reads a message, awaits
    # Network.on_message_received (internal handler, then EventBus.emit which awaits the listeners one after the other,
    # THEN the pending requests are completed) and only then reads the next message.  So the messages of a connection
    # are handled strictly one after the other: handling of message k starts at max(arrival k, end of k-1) and ends
    # after the sum of the listener suspensions; requests see the message at the END of its handling.  Times in
    # microseconds (exact integers); suspensions of 1..5 loop iterations take no virtual time.
    plans = [x['suspend'] for x in listeners if isinstance(x, dict)]
    seq = {}        # connection object -> msg indices in send order
    for i in order:
        seq.setdefault(proc_of[i], []).append(i)
    handled_at = {}     # msg index -> microsecond at which its handling ends (requests are completed then)
    waited = set()      # messages that had to wait in the read buffer for the handling of the previous one
    for conn in sorted(seq):
        prev_end = 0
        for k, i in enumerate(seq[conn]):
            a = arrival[i] * 1000
            if prev_end > a:
                waited.add(i)
            d = 0 if conn.startswith('B:') else sum((p[k % len(p)] if p[k % len(p)] > 5 else 0) for p in plans)
            handled_at[i] = prev_end = max(a, prev_end) + d
    pos = {i: n for n, i in enumerate(order)}
    order = sorted(order, key=lambda i: (handled_at[i], pos[i]))    # order in which requests see the messages

    outcomes = {}
    cb_errors = []
    entered, finished, seen = {}, [], []
    rec = {}
    hung = []

    async def main(world: simworld.World):
        loop = world.loop
        settings = simworld.mk_settings('me')
        network = Network(settings, EventBus())
        # optionally a second, independent Network object in the same process / loop
        settings2 = simworld.mk_settings('me2', port=60002, obfuscated_port=60003) if net2 else None
        network2 = Network(settings2, EventBus()) if net2 else None
        nets = [network] + ([network2] if net2 else [])

        portmap = {}    # (peer name, source port of the scripted link) -> label of the connection object

        def ckey(connection):
            if connection is network.server_connection:
                return 'server'
            if net2 and connection is network2.server_connection:
                return 'B:server'
            return portmap.get((getattr(connection, 'username', None), getattr(connection, 'port', None)))

        def guard(nw):
            orig = nw.on_message_received

            async def guarded(message, connection):
                key = ckey(connection)
                entered.setdefault(key, []).append(message)     # order in which the reader hands the messages over
                try:
                    return await orig(message, connection)
                except Exception as exc:  # what the reader loop would log as "error during callback"
                    cb_errors.append((round(loop.time(), 6), type(exc).__name__, repr(message)))
                    raise
                finally:
                    finished.append((key, message))             # order in which their handling ends
            nw.on_message_received = guarded
        for nw in nets:
            guard(nw)
        from aioslsk.events import MessageReceivedEvent
        keep = []

        def mk_listener(kind):
            if kind == 'sync-raise':
                def l(event):
                    raise RuntimeError('listener failed')
            elif kind == 'async-raise':
                async def l(event):
                    raise RuntimeError('listener failed')
            elif kind == 'async-raise-late':
                async def l(event):
                    await asyncio.sleep(0)
                    await asyncio.sleep(0)
                    raise RuntimeError('listener failed')
            elif isinstance(kind, dict):
                plan, calls = kind['suspend'], {}

                async def l(event):
                    key = ckey(event.connection)
                    k = calls.get(key, 0)
                    calls[key] = k + 1
                    v = plan[k % len(plan)]
                    if 1 <= v <= 5:
                        await simloop.step(v)
                    elif v > 5:
                        await asyncio.sleep(v / 1e6)
            else:
                async def l(event):
                    await asyncio.sleep(0)
            return l
        for kind in listeners:
            l = mk_listener(kind)
            keep.append(l)          # the bus holds listeners weakly
            network._event_bus.register(MessageReceivedEvent, l)
        if listeners:
            def recorder(event):    # called after all other listeners
                seen.append((ckey(event.connection), event.message))
            keep.append(recorder)
            network._event_bus.register(MessageReceivedEvent, recorder, priority=1000)
        if connects:
            # the simulated server stays silent about addresses / connect requests: only the messages of the case
            # answer anything
            world.server.handlers[M.GetPeerAddress.Request] = lambda srv, i, m: True
            world.server.handlers[M.ConnectToPeer.Request] = lambda srv, i, m: True
        await network.initialize()
        network.server_connection.start_reader_task()
        eps = {'server': world.server.sessions[-1]}
        if net2:
            await network2.initialize()
            network2.server_connection.start_reader_task()
            eps['B:server'] = world.server.sessions[-1]
        peers = []
        for k in range(2):
            p = world.add_peer('peer%d' % k)
            link = p.connect('P', port=settings.network.listening.port)
            peers.append(link)
            portmap[(p.name, link.ep.link.sides[1].get_extra_info('peername')[1])] = '%s#m0' % p.name
            eps[p.name] = link.ep
            if net2:
                # the same peer user also has a connection to the second network
                link2 = p.connect('P', port=settings2.network.listening.port)
                portmap[(p.name, link2.ep.link.sides[1].get_extra_info('peername')[1])] = 'B:%s' % p.name
                eps['B:' + p.name] = link2.ep
        opened = {'peer0': 0, 'peer1': 0}
        await asyncio.sleep(0.01)
        t0 = loop.time()

        def fields_of(r):
            out = {}
            for k, m in r['fields'].items():
                if isinstance(m, dict):
                    v = m['v']
                    out[k] = (lambda a, v=v: a == v) if m['fn'] == 'eq' else (lambda a, v=v: a != v)
                else:
                    out[k] = m
            return out

        async def request(idx, r):
            delay = t0 + r['at'] * TICK - loop.time()
            if delay > 0:
                await asyncio.sleep(delay)
            cls = _cls(r['cls'])
            timeout = r['timeout'] * TICK
            peer = None if r['conn'] == 'server' else r['conn']
            nw = nets[r['net']]
            try:
                if r['api'] == 'wait':
                    if peer is None:
                        msg = await nw.wait_for_server_message(cls, fields=fields_of(r), timeout=timeout)
                    else:
                        msg = await nw.wait_for_peer_message(peer, cls, fields=fields_of(r), timeout=timeout)
                else:
                    if r['api'] == 'future':
                        fut = nw.create_server_response_future(cls, fields=fields_of(r)) if peer is None else \
                            nw.create_peer_response_future(peer, cls, fields=fields_of(r))
                    else:
                        fut = ExpectedResponse(ServerConnection if peer is None else PeerConnection, cls,
                                               peer=peer, fields=fields_of(r))
                        nw.register_response_future(fut)
                    async with atimeout(timeout):
                        conn, msg = await fut
                    want_conn = nw.server_connection if peer is None else None
                    if want_conn is not None and conn is not want_conn:
                        outcomes[idx] = ('wrong-connection', repr(conn))
                        return
                    if peer is not None and (getattr(conn, 'username', None) != peer or conn.network is not nw):
                        outcomes[idx] = ('wrong-connection', repr(conn))
                        return
                outcomes[idx] = ('msg', msg)
            except asyncio.CancelledError:
                outcomes[idx] = ('cancelled',)
                raise
            except TimeoutError:
                outcomes[idx] = ('timeout',)
            except Exception as exc:
                outcomes[idx] = ('error', type(exc).__name__)

        tasks = [asyncio.ensure_future(request(i, r)) for i, r in enumerate(reqs)]

        async def canceller(i, r):
            delay = t0 + (r['at'] + r['cancel']) * TICK - loop.time()
            if delay > 0:
                await asyncio.sleep(delay)
            tasks[i].cancel()
        cancels = [asyncio.ensure_future(canceller(i, r)) for i, r in enumerate(reqs) if r['cancel'] is not None]

        async def connector(e):
            delay = t0 + e['at'] * TICK - loop.time()
            if delay > 0:
                await asyncio.sleep(delay)
            try:
                conn = await network.create_peer_connection(e['user'], 'P')
                await conn.disconnect()
            except BaseException:
                pass

        async def conn_canceller(task, e):
            delay = t0 + (e['at'] + e['cancel']) * TICK - loop.time()
            if delay > 0:
                await asyncio.sleep(delay)
            task.cancel()
        for e in connects:
            ct = asyncio.ensure_future(connector(e))
            cancels.append(ct)
            cancels.append(asyncio.ensure_future(conn_canceller(ct, e)))

        # one timer per tick (equal-deadline timers are not FIFO in asyncio): sends stay in list order.  Within a tick:
        # closes that come BEFORE the data, re-openings, data, closes AFTER the data (data + FIN in the same instant),
        # re-openings that follow such a close at once
        by_tick = {}
        for e in reconn:
            after = e['order'] == 'after'
            by_tick.setdefault(e['at'], []).append((3 if after else 0, e['conn'], ('close', e['how'])))
            if e['conn'] != 'server':
                by_tick.setdefault(e['at'] + e['gap'], []).append(
                    (4 if (after and e['gap'] == 0) else 1, e['conn'], ('open',)))
        for sg in segments:
            data = b''.join(_build(inc[i]['cls'], inc[i]['values']).serialize() for i in sg['idxs'])
            if sg['net'] == 1:
                by_tick.setdefault(sg['tick'], []).append((2, 'B:' + sg['conn'], data))
            elif sg['via'] == 'main':
                by_tick.setdefault(sg['tick'], []).append((2, sg['conn'], data))
            else:
                by_tick.setdefault(sg['tick'], []).append((2, sg['conn'], ('fresh', sg['via'], sg['fin'], sg['proc'],
                                                                          data)))

        def new_link(conn, label, init):
            lk = world.peers[conn].connect('P', port=settings.network.listening.port, init=init)
            portmap[(conn, lk.ep.link.sides[1].get_extra_info('peername')[1])] = label
            return lk

        def send_all(items):
            for _, conn, data in items:
                if isinstance(data, tuple):
                    if data[0] == 'close':
                        (eps[conn].reset if data[1] == 'reset' else eps[conn].close)()
                    elif data[0] == 'open':
                        k = int(conn[-1])
                        opened[conn] += 1
                        peers[k] = new_link(conn, '%s#m%d' % (conn, opened[conn]), 'peer_init')
                        eps[conn] = peers[k].ep
                    else:
                        # the peer opens a connection of its own for this segment: PeerInit + messages (+ FIN) at once
                        _, via, fin, label, payload = data
                        lk = new_link(conn, label, None)
                        init = M.PeerInit.Request(conn, 'P', 0).serialize()
                        if via == 'fresh':
                            lk.ep.send(init + payload)
                        else:
                            lk.ep.send(init)
                            lk.ep.send(payload)
                        if fin:
                            lk.ep.close()
                else:
                    eps[conn].send(data)
        for tick, items in sorted(by_tick.items()):
            loop.call_at(t0 + tick * TICK, send_all, sorted(items, key=lambda it: it[0]))

        await asyncio.sleep(0.2)
        # every request of the case is over by now (start <= 30 ticks, timeout <= 60 ticks): one that is not has hung
        for i, t in enumerate(tasks):
            if not t.done():
                hung.append(i)
                t.cancel()
        await asyncio.gather(*tasks, *cancels, return_exceptions=True)
        for i in hung:
            outcomes.pop(i, None)
        residue = len(network._expected_response_futures) + \
            (len(network2._expected_response_futures) if net2 and
             network2._expected_response_futures is not network._expected_response_futures else 0)
        rec['entered'] = {k: list(v) for k, v in entered.items()}
        rec['finished'] = list(finished)
        rec['seen'] = list(seen)
        # probe: the machinery still works afterwards
        if any(e['conn'] == 'server' for e in reconn):
            # the server closed the connection during the history: probe over the connection of peer0
            probe = network.create_peer_response_future('peer0', M.PeerUploadFailed.Request,
                                                        fields={'filename': 'probe'})
            peers[0].send_msg(M.PeerUploadFailed.Request('probe'))
        else:
            probe = network.create_server_response_future(M.GetUserStatus.Response, fields={'username': 'probe'})
            eps['server'].send(M.GetUserStatus.Response('probe', 1, False).serialize())
        probe_ok = True
        try:
            async with atimeout(0.05):
                await probe
        except BaseException:
            probe_ok = False
        if net2 and probe_ok:
            # the second network still works as well; the probe of one network is not answered via the other
            probe2 = network2.create_server_response_future(M.GetUserStatus.Response, fields={'username': 'probe'})
            cross = network.create_peer_response_future('peer1', M.PeerUploadFailed.Request,
                                                        fields={'filename': 'probe2'})
            eps['B:server'].send(M.GetUserStatus.Response('probe', 1, False).serialize())
            eps['B:peer1'].send(M.PeerUploadFailed.Request('probe2').serialize())
            try:
                async with atimeout(0.05):
                    await probe2
            except BaseException:
                probe_ok = False
            await asyncio.sleep(0.01)
            if cross.done() and not cross.cancelled():
                rec['cross_probe'] = True
            cross.cancel()
            await asyncio.sleep(0)
        reader_alive = network.server_connection._reader_task is not None and \
            not network.server_connection._reader_task.done()
        if net2:
            await network2.disconnect()
        await network.disconnect()
        return residue, probe_ok, reader_alive

    (residue, probe_ok, reader_alive), loop_errors = simworld.run_world(main)

    # ---- which incoming message is which object ------------------------------
    # the reader hands the messages of a connection to on_message_received in the order they were sent: the k-th
    # object entered for a connection is the k-th message of the case for that connection (only used when the
    # counts and the values agree; otherwise outcomes are compared by value)
    objmap = {}
    ent = rec.get('entered', {})
    mapped = bool(inc) and all(len(ent.get(conn, [])) == len(idxs) for conn, idxs in seq.items()) and \
        all(conn in seq for conn in ent)
    if mapped:
        for conn, idxs in seq.items():
            for obj, mi in zip(ent[conn], idxs):
                if obj != _build(inc[mi]['cls'], inc[mi]['values']):
                    mapped = False
                objmap[id(obj)] = mi
    if mapped:
        # messages of one connection are handled one after the other, in the order of their arrival
        for what, rows in (('handling-finished', rec.get('finished', [])), ('seen-by-listener', rec.get('seen', []))):
            if what == 'seen-by-listener' and not listeners:
                continue
            for conn in sorted(seq):
                if what == 'seen-by-listener' and conn.startswith('B:'):
                    continue        # the listeners are registered on the event bus of the first network
                got_seq = [objmap.get(id(obj)) for key, obj in rows if key == conn]
                if got_seq != seq[conn]:
                    res.violate('C12/messages-handled-out-of-order:' + what,
                                f'connection {conn}: messages arrived in the order {seq[conn]}, {what} in the order '
                                f'{got_seq} (indices of "incoming"; listeners {listeners})')
                    break

    # ---- reference model ---------------------------------------------------
    ties = False
    near = False
    multi = False
    late_reg = False
    answered_by = {}
    for i, r in enumerate(reqs):
        reg = r['at'] * 1000
        dl = (r['at'] + r['timeout']) * 1000
        cancel = None if r['cancel'] is None else (r['at'] + r['cancel']) * 1000
        end = dl if cancel is None or dl <= cancel else cancel
        end_kind = 'timeout' if (cancel is None or dl < cancel) else ('tie-end' if dl == cancel else 'cancelled')
        strict = None       # first match strictly inside (reg, end)
        acceptable = set()
        for mi in order:
            m = inc[mi]
            if not _matches(r, m):
                continue
            t = handled_at[mi]
            if strict is not None:
                if t == handled_at[strict]:
                    if proc_of[mi] != proc_of[strict]:
                        # handled in the same instant on ANOTHER connection of the same peer: no order between them
                        ties = True
                        acceptable.add(mi)
                    continue
                break
            if t == reg or t == end:
                ties = True
                acceptable.add(mi)      # may or may not be seen
                continue
            if abs(t - end) <= 1000:
                near = True
            if reg < t < end:
                strict = mi
                if arrival[mi] * 1000 <= reg:
                    late_reg = True     # registered while the message that answers it was being handled
        got = outcomes.get(i)
        if got is None:
            res.violate('C12/request-never-finished' + (f':timeout=0:{r["api"]}' if r['timeout'] == 0 else ''),
                        f'request {i} {r} was still pending 200 ms after the start of the history'
                        + (' (hung)' if i in hung else ''))
            continue
        if got[0] == 'error':
            res.violate(f'C12/wrong-exception:{got[1]}:{r["api"]}', f'request {i} {r} raised {got[1]} '
                        f'(expected {"message" if strict is not None else end_kind})')
            continue
        if got[0] == 'wrong-connection':
            res.violate('C12/wrong-connection', f'request {i} {r}: {got[1]}')
            continue
        ok = False
        if got[0] == 'msg':
            cands = ([strict] if strict is not None else []) + sorted(acceptable)
            vals = [_build(inc[mi]['cls'], inc[mi]['values']) for mi in cands]
            got_mi = objmap.get(id(got[1])) if mapped else None
            if got_mi is not None:
                # the very object that was handed to on_message_received as message #got_mi
                ok = got_mi in cands
                if ok:
                    answered_by[i] = got_mi
                elif inc[got_mi]['net'] != r['net']:
                    res.violate('C12/completed-by-message-of-another-network',
                                f'request {i} {r} (network {r["net"]}) completed with message #{got_mi} {got[1]!r} that '
                                f'only network {inc[got_mi]["net"]} received')
                    continue
                elif _matches(r, inc[got_mi]):
                    res.violate('C12/completed-by-wrong-message',
                                f'request {i} {r} completed with message #{got_mi} {got[1]!r} (handling ends at '
                                f'{handled_at[got_mi]} us), expected message #{strict} (handling ends at '
                                f'{handled_at.get(strict)} us) or a tie {sorted(acceptable)}; listeners {listeners}')
                    continue
            else:
                ok = any(got[1] == v for v in vals)
                if ok:
                    answered_by[i] = [mi for mi, v in zip(cands, vals) if got[1] == v][0]
            if not ok:
                has_callable = any(isinstance(m, dict) for m in r['fields'].values())
                matching_any = [mi for mi in order if _matches(r, inc[mi])]
                if not matching_any or all(got[1] != _build(inc[mi]['cls'], inc[mi]['values']) for mi in matching_any):
                    kind = 'C12/completed-by-non-matching-message'
                    if has_callable and len(r['fields']) > 1:
                        kind += ':callable-with-other-matchers'
                    res.violate(kind, f'request {i} {r} completed with {got[1]!r}')
                else:
                    res.violate('C12/completed-by-wrong-message', f'request {i} {r} completed with {got[1]!r}, '
                                f'expected message #{strict}')
        elif got[0] == 'timeout':
            ok = (strict is None and end_kind in ('timeout', 'tie-end')) or \
                (strict is not None and False)
            if not ok:
                if strict is not None:
                    has_callable = any(isinstance(m, dict) for m in r['fields'].values())
                    kind = 'C12/matching-message-ignored'
                    if has_callable and len(r['fields']) > 1:
                        kind += ':callable-with-other-matchers'
                    res.violate(kind, f'request {i} {r} timed out although message #{strict} '
                                      f'{inc[strict]} arrived at tick {arrival[strict]} (handling ends at '
                                      f'{handled_at[strict]} us)')
                else:
                    res.violate('C12/timeout-instead-of-cancel', f'request {i} {r}')
        elif got[0] == 'cancelled':
            ok = strict is None and end_kind in ('cancelled', 'tie-end')
            if not ok:
                if strict is not None:
                    res.violate('C12/matching-message-ignored', f'request {i} {r} cancelled although message '
                                                                 f'#{strict} arrived at tick {arrival[strict]} '
                                                                 f'(handling ends at {handled_at[strict]} us)')
                else:
                    res.violate('C12/cancel-instead-of-timeout', f'request {i} {r}')
    if len(set(answered_by.values())) < len(answered_by):
        multi = True
    if rec.get('cross_probe'):
        res.violate('C12/completed-by-message-of-another-network:probe',
                    'a request of network 0 for a message of peer1 was completed by a message that peer1 sent to network 1')
    if cb_errors:
        res.violate(f'C12/on-message-received-raised:{cb_errors[0][1]}', str(cb_errors[:3]))
    if residue:
        res.violate('C12/residue-in-pending-list', f'{residue} futures left')
    if not probe_ok:
        res.violate('C12/probe-not-completed', f'reader_alive={reader_alive}')
    for e in loop_errors:
        res.violate(f'C12/loop-error:{e["exc_type"]}', str(e)[:300])
        break
    glued_match = any(len(sg['idxs']) > 1 and
                      sum(1 for i in sg['idxs'] if any(_matches(r, inc[i]) for r in reqs)) > 1 for sg in segments)
    shared_reply = bool(connects) and any(r['cls'] == 'GetPeerAddress' and r['fields'].get('username') in
                                          [e['user'] for e in connects] for r in reqs)
    close_glued = False
    # a message that answers a request had to wait in the read buffer while a listener was busy with the previous one
    buffered_match = any(i in waited and any(_matches(r, inc[i]) for r in reqs) for i in order)
    res.nontrivial = bool(multi or glued_match or near or ties or shared_reply or buffered_match or late_reg)
    if buffered_match:
        res.label('matching-message-waited-for-suspended-listener')
    if late_reg:
        res.label('request-registered-while-its-answer-was-being-handled')
    if shared_reply:
        res.label('request-and-create-peer-connection-need-the-same-reply')
    if multi:
        res.label('one-message-answers-several')
    if glued_match:
        res.label('glued-matching-messages')
    if near:
        res.label('arrival-near-deadline')
    if ties:
        res.label('tie')
    for o in outcomes.values():
        res.label('outcome:' + o[0])
    for x in listeners:
        res.label('listener:' + (x if isinstance(x, str) else 'suspend'))
    if any(r['timeout'] == 0 for r in reqs):
        res.label('timeout-0')
    if net2:
        res.label('two-networks')
        if any(_matches(dict(r, net=0), dict(inc[i], net=0)) and r['net'] != inc[i]['net']
               for r in reqs for i in order):
            res.label('message-received-by-the-other-network-would-answer-a-request')
            res.nontrivial = True
    answering = lambda idxs: any(_matches(r, inc[i]) for r in reqs for i in idxs)    # noqa: E731
    for sg in segments:
        if sg['via'] != 'main':
            res.label('reply-over-own-connection:%s%s' % (sg['via'], '+fin' if sg['fin'] else ''))
            if sg['fin'] and answering(sg['idxs']):
                close_glued = True
    for e in reconn:
        res.label('close:%s:%s:%s' % ('server' if e['conn'] == 'server' else 'peer', e['order'], e['how']))
        if e['order'] == 'after':
            same = [sg for sg in segments if sg['conn'] == e['conn'] and sg['via'] == 'main' and sg['tick'] == e['at']]
            if same:
                res.label('message-and-fin-in-the-same-instant')
                if any(answering(sg['idxs']) for sg in same):
                    close_glued = True
    if close_glued:
        res.label('answer-glued-to-the-close-of-its-connection')
        res.nontrivial = True
    if mapped:
        res.label('messages-identified-by-object')
    if connects:
        res.label('concurrent-create-peer-connection')
    if any(isinstance(m, dict) for r in reqs for m in r['fields'].values()):
        res.label('callable-matcher')
    return res


def _shared_reply_cases():
    """A pending request for the address of a user while create_peer_connection() for the same / the other user is
    started before or after it and cancelled before or after the server's reply."""
    for api in APIS:
        for user in USERS:
            for cuser in USERS:
                for req_at, con_at in ((0, 2), (2, 0), (1, 1)):
                    for cancel in (2, 6, 20):
                        for reply_at in (None, 5, 12):
                            inc = [] if reply_at is None else [
                                {'conn': 'server', 'cls': 'GetPeerAddress', 'values': {'username': user, 'port': 1},
                                 'at': reply_at, 'glue': False}]
                            yield {'requests': [{'api': api, 'conn': 'server', 'cls': 'GetPeerAddress',
                                                 'fields': {'username': user}, 'timeout': 30, 'at': req_at,
                                                 'cancel': None}],
                                   'incoming': inc, 'reconn': [], 'listeners': [],
                                   'connects': [{'user': cuser, 'at': con_at, 'cancel': cancel}]}


def _suspending_cases():
    """Two or three messages that answer the same pending request arrive in one segment / one tick apart while an
    application listener is busy with the first one for longer than with the following ones."""
    for api in APIS:
        for conn, name, vals in (('server', 'GetUserStatus', [{'username': 'a', 'status': s, 'privileged': False}
                                                              for s in (2, 1, 0)]),
                                 ('peer0', 'PeerPlaceInQueueReply', [{'filename': 'f', 'place': p} for p in (1, 0, 1)])):
            key = 'username' if conn == 'server' else 'filename'
            for plan in ([3, 0], [1, 0, 0], [1500, 0], [2000, 200, 0], [700, 2]):
                for glue in (True, False):
                    for n in (2, 3):
                        for req_at in (0, 5):
                            inc = [{'conn': conn, 'cls': name, 'values': vals[k], 'at': 4 + (0 if glue else k),
                                    'glue': glue and k > 0} for k in range(n)]
                            yield {'requests': [{'api': api, 'conn': conn, 'cls': name,
                                                 'fields': {key: vals[0][key]}, 'timeout': 30, 'at': req_at,
                                                 'cancel': None}],
                                   'incoming': inc, 'reconn': [], 'listeners': [{'suspend': plan}], 'connects': []}


def _timeout0_cases():
    """timeout 0 (the used-up remaining budget): TimeoutError in the next loop iteration, whatever arrives later."""
    for api in APIS:
        for conn, name, vals in (('server', 'GetUserStatus', {'username': 'a', 'status': 1, 'privileged': False}),
                                 ('peer1', 'PeerUploadFailed', {'filename': 'g'})):
            key = 'username' if conn == 'server' else 'filename'
            for msg_at in (None, 2, 3, 9):      # none / handled in the tick of the registration / later
                for cancel in (None, 1, 5):
                    inc = [] if msg_at is None else [{'conn': conn, 'cls': name, 'values': vals, 'at': msg_at,
                                                      'glue': False}]
                    yield {'requests': [{'api': api, 'conn': conn, 'cls': name, 'fields': {key: vals[key]},
                                         'timeout': 0, 'at': 3, 'cancel': cancel}],
                           'incoming': inc, 'reconn': [], 'listeners': [], 'connects': []}


def _close_glued_cases():
    """The answer is the last thing sent before the connection closes: written together with the FIN on the peer's /
    the server's existing connection (idle reader, or reader still busy with the previous message), or over a
    connection of its own (PeerInit + answer + FIN in one go)."""
    peer = ('peer0', 'PeerPlaceInQueueReply', [{'filename': 'f', 'place': p} for p in (1, 0)], 'filename')
    server = ('server', 'GetUserStatus', [{'username': 'a', 'status': s, 'privileged': False} for s in (2, 1)],
              'username')
    for api in APIS:
        for conn, name, vals, key in (peer, server):
            req = {'api': api, 'conn': conn, 'cls': name, 'fields': {key: vals[0][key], **(
                {'place': 0} if conn != 'server' else {'status': 1})}, 'timeout': 30, 'at': 0, 'cancel': None}
            # (a) answer + FIN in the same instant, reader idle / busy with the previous message
            for listeners in ([], [{'suspend': [1500, 0]}], [{'suspend': [3, 0]}], ['async-ok']):
                for glue in (False, True):
                    for gap in (0, 2):
                        inc = [{'conn': conn, 'cls': name, 'values': vals[0], 'at': 4 if glue else 3, 'glue': False},
                               {'conn': conn, 'cls': name, 'values': vals[1], 'at': 4, 'glue': glue}]
                        yield {'requests': [req], 'incoming': inc, 'listeners': listeners, 'connects': [],
                               'reconn': [{'conn': conn, 'at': 4, 'gap': gap, 'how': 'eof', 'order': 'after'}]}
            if conn == 'server':
                continue
            # (b) the peer delivers the answer over a connection of its own
            for via in ('fresh', 'fresh2'):
                for fin in (True, False):
                    for listeners in ([], [{'suspend': [700]}]):
                        for n in (1, 2):
                            inc = [{'conn': conn, 'cls': name, 'values': vals[k] if n == 2 else vals[1], 'at': 4,
                                    'glue': k > 0, 'via': via, 'fin': fin} for k in range(n)]
                            yield {'requests': [req], 'incoming': inc, 'listeners': listeners, 'connects': [],
                                   'reconn': []}


def _two_network_cases():
    """Two Network objects in one process: a message that only the other network receives (same class, same peer user
    name, same field values) does not complete a pending request; the own answer that follows does."""
    for api in APIS:
        for conn, name, vals in (('server', 'GetUserStatus', {'username': 'a', 'status': 1, 'privileged': False}),
                                 ('peer0', 'PeerUploadFailed', {'filename': 'f'})):
            key = 'username' if conn == 'server' else 'filename'
            for rnet in (0, 1):
                for own_at in (None, 9):
                    inc = [{'conn': conn, 'cls': name, 'values': vals, 'at': 4, 'glue': False, 'net': 1 - rnet}]
                    if own_at is not None:
                        inc.append({'conn': conn, 'cls': name, 'values': vals, 'at': own_at, 'glue': False,
                                    'net': rnet})
                    yield {'requests': [{'api': api, 'conn': conn, 'cls': name, 'fields': {key: vals[key]},
                                         'timeout': 30, 'at': 0, 'cancel': None, 'net': rnet}],
                           'incoming': inc, 'reconn': [], 'listeners': [], 'connects': [], 'net2': True}


def run_shard(ctx):
    ctx.enumerate(_two_network_cases())
    ctx.enumerate(_shared_reply_cases())
    ctx.enumerate(_suspending_cases())
    ctx.enumerate(_timeout0_cases())
    ctx.enumerate(_close_glued_cases())
    n = 500 if ctx.tier == 'quick' else 20000
    ctx.explore(case_strategy(), n)
    from checks import c12_cmd
    c12_cmd.shard_cmd(ctx)


MANIFEST_ENTRY = {
    'technique': 'property-based testing (Hypothesis): generated request multisets and incoming message schedules '
                 '(glued segments, raising and suspending application listeners, reconnecting peers, message + FIN in one '
                 'instant, replies over a connection of their own, timeout 0, a second Network object in the process, concurrent '
                 'address lookups) on a virtual-time loop with in-memory TCP, first-match reference model as oracle; '
                 'second tier: generated execute(command, response=True) scripts incl. a run-time credentials change',
    'level_text': 'Generated-schedule exploration of the real Network request/response matching through real '
                  'connections: outcomes of every pending request are compared with a sequential first-match '
                  'reference model (messages of a connection handled one after the other, requests see a message when '
                  'its handling ends; completing message identified by object); per-connection handling order, '
                  'residue, reader liveness and loop errors are checked after each history.',
    'level_note': 'Trusted base: virtual loop and in-memory TCP (ordered, lossless, latency 1 ms), the reference model '
                  'in checks/c12.py. Ties at the same instant accept both orders. With suspending listeners '
                  'connections close by EOF only.',
}
