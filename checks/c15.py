"""C15 — server-side user tracking mirrors the set of reasons to track (DESIGN §3 C15)."""
from __future__ import annotations

import asyncio
import itertools

from hypothesis import strategies as st

from vfw import simloop, simworld
from vfw.runner import CaseResult

PROPERTY = 'C15'
LEVEL = 'exploration'
RULE = (
    "Case = one-way latency (0.5 ms..2 s), per-user list of server behaviours per AddUser attempt (exists / missing / "
    "silent, cyclic), <=8 track_user/untrack_user calls (flag argument: any subset of {REQUESTED, TRANSFER, FRIEND} incl. the empty set TrackingFlag(0), which must change and send nothing; the model is set union / difference) for users u0 'Miles', u1 'miles' (names differing only in case, two distinct users) and u2 (in a quarter of the multi-user cases opened by a burst: every user gets a reason 0..5 iterations apart, so several attempts are in flight at once) with flags from {REQUESTED, TRANSFER, FRIEND} "
    "(single, sometimes combined), each followed by a gap: 0..16 loop iterations, a virtual delay 1 ms..700 s (biased to "
    "the neighbourhood of 10 s, 20 s, 600 s), 'retry' (wait until the exact instant at which the pending retry of that "
    "user fires, then k iterations) or 'reply' (the exact instant at which the AddUser reply reaches the client, then k "
    "iterations); at most one server disconnect (server EOF, server reset, or the next client write fails) at a "
    "generated position; a tail of 12..1300 s; in half of the cases the server runs in glue mode: it collects the AddUser answers of a 1 ms / 10 ms / 0.3 s window and writes them with one send (one TCP segment, handled back-to-back by the client), in arrival or reverse order, optionally with a GetUserStatus notification before, between or after them. "
    "System = real UserManager + real Network over the in-memory TCP layer "
    "(1 in 10 cases: a full logged-in SoulSeekClient, there with delays and tail capped at 45 s). Besides Hypothesis, "
    "run_shard enumerates glued answers for 2..3 simultaneously tracked users (order x extra message x window x iteration offset x answer), the iteration offset 0..12 between the untrack that empties the set and the next track (x "
    "behaviour x latency x exit path), offsets around the retry instant, and disconnect kinds x offsets. Oracle = "
    "flag-set reference model folded over the calls in issue order. The worker handles calls one by one, so the "
    "property is read literally: per user the AddUser/RemoveUser frames seen by the server, with runs of consecutive "
    "AddUser merged, must equal the model's sequence of empty->non-empty (AddUser) and non-empty->empty (RemoveUser) "
    "transitions (a prefix of it once the connection broke); a repeated AddUser is only legitimate as a retry: previous "
    "attempt unanswered -> 10 s answer timeout + 10 s, previous attempt 'missing' -> 600 s after the answer (tolerance "
    "5 ms), never after 'exists'; a due retry must appear (50 ms margin: an untrack landing on the retry instant is a "
    "tie, both orders accepted). After the tail and after the backlog drained: get_tracking_flags == model set; "
    "get_tracking_state == TRACKED iff set non-empty and the last attempt was answered 'exists' (skipped while an answer "
    "is in flight), UNTRACKED when the set is empty. After a close: calls issued while the connection was CONNECTED are "
    "dropped, calls issued after all ConnectionStateChangedEvent(CLOSED) listeners ran are kept (flags must reflect "
    "them, never TRACKED), calls in between may be either (all subsets accepted); no tracking worker/retry task that "
    "existed when CLOSED was announced is alive at the end; a broken connection whose CLOSED announcement never gets "
    "past the library's listeners is a violation when tracking tasks survive or the loop recorded a RecursionError. "
    "An observation that is explained by deleting one or two calls is reported as lost call(s) (kind names the window) "
    "and suppresses the dependent observations of that user. Non-trivial = a track call in the same instant (zero "
    "virtual time, 0..16 iterations) after the call that emptied the set, or a set emptied while a retry was pending, "
    "or a call issued while an attempt was in flight, or a disconnect with a non-empty set, or the answers of several "
    "users in one segment; distinct = distinct case. "
    "Second tier ('tier':'xfer', full logged-in SoulSeekClient, confirming server): <=12 ops from {add a download "
    "(left VIRGIN, paused, or queued towards an unreachable peer) in one of 3 slots for u0/u1, abort, pause, queue, "
    "remove, track_user/untrack_user with REQUESTED or FRIEND, server EOF/reset/failing write, re-login (Network.connect_server + "
    "login)} with gaps 0..3 s; the TRANSFER reason is owned by the real TransferManager. In 4 of 10 cases the FRIEND reason is owned by the friend list instead of the API: initial settings.users.friends, ops fadd/fdel (in-place .add/.discard) and fset (assignment) for u0..u2, gaps up to 7 s, and an application FriendListChangedEvent listener that sleeps 0.1..2 s registered before or after the library listeners; a sync flag makes the next op land while that listener is suspended. "
    "At every quiescent point "
    "while logged in (>= 1.5 s after the last op, >= 22 s after a re-login) and at the end (after a re-login if "
    "needed), per user: reasons = user-API reasons since the last close | TRANSFER iff client.transfers holds an "
    "unfinished transfer of that user | FRIEND iff the name is in settings.users.friends (checkpoint only >= 2 x listener sleep + 1.6 s after the last list change); get_tracking_flags == reasons; the AddUser/RemoveUser frames of the *current* "
    "server session alternate and end with AddUser iff reasons is non-empty; state TRACKED iff non-empty. Non-trivial "
    "there = a re-login, TRANSFER combined with an API reason, a removed transfer, or a friend-list change made while the "
    "application listener was suspended."
)
ASSUMPTIONS = [
    "every delivery has strictly positive latency (>= 0.5 ms); calls are issued by one driver task, so issue order is total",
    "the retry delays are pinned from the code constants the design cites (10 s after a network error / no answer within "
    "the 10 s answer timeout, 600 s after 'user does not exist'); USAGE.rst documents the semantics but no numbers",
    "flags are non-empty combinations of REQUESTED/TRANSFER/FRIEND (TrackingFlag(0) is the worker's private retry marker "
    "and not a reason); users are distinct from the logged-in user and the friend list (full-client cases)",
    "a send error on a connected TCP stream cannot be produced without breaking the connection: 'send failure' is "
    "generated as a failing transport write (connection drops, everything is dropped) and as calls issued while the "
    "connection is closed (message silently not sent -> no-answer path, retry after timeout + 10 s, not observable at the "
    "server); replies later than the 10 s answer timeout are not generated",
    "bare-Network cases send a Ping.Response from the server every 200 s so that the 600 s server read timeout (which "
    "the full client avoids by pinging) does not close the connection during long delays",
    "task survival and the worker-exit-window hint in the violation kind read task names / private attributes for "
    "observation only",
    "xfer tier: a write failure is provoked at once by the AddUser of a dummy user; no calls within 0.3 s after the break; downloads never "
    "finish on their own (peer without address), so 'unfinished' only changes through the generated ops; on a later "
    "friend-list cases: the user API only handles REQUESTED (the FRIEND bit has one owner); on a later "
    "session one leading RemoveUser is tolerated (a reason added while disconnected, whose AddUser was silently not "
    "sent, and removed again); no checkpoints while disconnected",
]
BUDGET_S = {'quick': 120, 'thorough': 1500}

# u0 and u1 differ only in case (SoulSeek names are case sensitive: two distinct users), u2 is unrelated
USERS = ['Miles', 'miles', 'u2']
GLUE_WINDOWS = [0.001, 0.01, 0.3]   # the server collects AddUser answers this long and writes them as one segment
BEH = ['exists', 'missing', 'silent']
ANSWER_TIMEOUT = 10.0       # wait_for_server_message(AddUser.Response, timeout=10)
RETRY_NET = 10.0            # pinned: retry after send error / no answer
RETRY_MISSING = 600.0       # pinned: retry after "user does not exist"
EPS = 0.005
DUE_MARGIN = 0.05
DISC_KINDS = ['eof', 'reset', 'write_fail']
MAX_CALLS = 8
DT_CHOICES = [0.001, 0.0195, 0.02, 0.0405, 0.5, 3.0, 9.98, 10.0, 10.02, 15.0, 19.98, 20.0, 20.05, 25.0, 45.0, 100.0,
              599.9, 600.05, 650.0, 700.0]
TAILS = [12.0, 31.0, 45.0, 650.0, 1300.0]
LATS = [0.0005, 0.001, 0.02, 0.02, 0.3, 2.0]


# ---------------------------------------------------------------------------
# strategies

def _gap_strategy():
    return st.one_of(
        st.tuples(st.just('it'), st.integers(0, 12)),
        st.tuples(st.just('it'), st.integers(0, 12)),
        st.tuples(st.just('it'), st.integers(0, 6)),
        st.tuples(st.just('dt'), st.sampled_from(DT_CHOICES)),
        st.tuples(st.just('dt'), st.sampled_from(DT_CHOICES)),
        st.tuples(st.just('dt'), st.floats(0.001, 700.0, allow_nan=False, allow_infinity=False).map(lambda v: round(v, 3))),
        st.tuples(st.just('retry'), st.integers(0, 4)),
        st.tuples(st.just('reply'), st.integers(0, 6)),
    ).map(list)


@st.composite
def case_strategy(draw):
    n_users = draw(st.sampled_from([1, 2, 2, 3]))
    n_calls = draw(st.integers(1, MAX_CALLS))
    sets = [0, 0, 0]
    ops = []
    glue = draw(st.sampled_from([0, 0, 0, 1, 2, 3]))
    if n_users > 1 and draw(st.integers(0, 3 if glue else 9)) == 0:
        # burst: every user gets a reason at (nearly) the same time, so several attempts are in flight at once
        order = draw(st.permutations(list(range(n_users))))
        for u in order:
            f = draw(st.sampled_from([1, 2, 4]))
            sets[u] |= f
            ops.append({'op': 't', 'u': u, 'f': f, 'gap': ['it', draw(st.sampled_from([0, 0, 1, 2, 5]))]})
        ops[-1]['gap'] = draw(_gap_strategy())
        n_calls = max(0, n_calls - len(ops))
    for _ in range(n_calls):
        u = draw(st.integers(0, n_users - 1))
        held = [b for b in (1, 2, 4) if sets[u] & b]
        mode = draw(st.integers(0, 9))
        if held and mode < 5:
            op, f = 'u', draw(st.sampled_from(held))          # remove a reason that is held
            if len(held) > 1 and draw(st.integers(0, 3)) == 0:
                f = sets[u]                                    # remove all at once
        elif mode < 9:
            op, f = 't', draw(st.sampled_from([1, 2, 4, 1, 2, 4, 3, 5, 6, 7, 0]))
        else:
            op, f = 'u', draw(st.sampled_from([1, 2, 4, 7, 3, 5, 6, 0, 0]))   # possibly reasons that are not held / none
        sets[u] = (sets[u] | f) if op == 't' else (sets[u] & ~f)
        ops.append({'op': op, 'u': u, 'f': f, 'gap': draw(_gap_strategy())})
    if draw(st.integers(0, 9)) < 3:
        pos = draw(st.integers(0, len(ops)))
        ops.insert(pos, {'op': 'x', 'k': draw(st.integers(0, 2)), 'u': draw(st.integers(0, n_users - 1)),
                         'gap': draw(_gap_strategy())})
    beh = [draw(st.lists(st.sampled_from([0, 0, 0, 1, 2, 2] if glue else [0, 0, 1, 2, 2]), min_size=1, max_size=4))
           for _ in range(3)]
    case = {
        'lat': draw(st.sampled_from(LATS)),
        'full': draw(st.integers(0, 9)) == 0,
        'beh': beh,
        'ops': ops,
        'tail': draw(st.sampled_from(TAILS)),
    }
    if glue:
        case['glue'] = {'w': glue - 1, 'rev': draw(st.booleans()), 'extra': draw(st.integers(0, 3))}
    return case


# ---------------------------------------------------------------------------
# sanitising (run_case is total: shrunk / hand-written documents are clamped into the domain)

def _num(v, lo, hi, default, typ=float):
    try:
        if isinstance(v, bool):
            v = int(v)
        v = typ(v)
    except Exception:
        return default
    if v != v:
        return default
    return max(lo, min(hi, v))


def _gap(g):
    try:
        kind, val = g[0], g[1]
    except Exception:
        return ['it', 0]
    if kind == 'it':
        return ['it', _num(val, 0, 16, 0, int)]
    if kind == 'dt':
        return ['dt', _num(val, 0.001, 700.0, 0.001)]
    if kind in ('retry', 'reply'):
        return [kind, _num(val, 0, 8, 0, int)]
    return ['it', 0]


def _sanitise(case):
    if not isinstance(case, dict):
        case = {}
    ops = []
    ncalls = 0
    have_x = False
    raw = case.get('ops')
    for o in (raw if isinstance(raw, list) else []):
        if not isinstance(o, dict):
            continue
        kind = o.get('op')
        u = _num(o.get('u', 0), 0, 10 ** 6, 0, int) % len(USERS)
        gap = _gap(o.get('gap'))
        if kind in ('t', 'u'):
            if ncalls >= MAX_CALLS:
                continue
            ncalls += 1
            f = _num(o.get('f', 1), 0, 10 ** 6, 1, int) & 7       # 0 = TrackingFlag(0): changes nothing, sends nothing
            ops.append({'op': kind, 'u': u, 'f': f, 'gap': gap})
        elif kind == 'x' and not have_x:
            have_x = True
            ops.append({'op': 'x', 'u': u, 'k': _num(o.get('k', 0), 0, 10 ** 6, 0, int) % len(DISC_KINDS), 'gap': gap})
    beh = []
    rawb = case.get('beh')
    for i in range(len(USERS)):
        seq = rawb[i] if isinstance(rawb, list) and i < len(rawb) and isinstance(rawb[i], list) else []
        beh.append([_num(b, 0, 10 ** 6, 0, int) % len(BEH) for b in seq[:6]])
    full = bool(case.get('full', False))
    tail = _num(case.get('tail', 31.0), 12.0, 2000.0, 31.0)
    if full:
        # the full client runs several 1 s housekeeping timers: keep its virtual time short (cost), the long
        # delays are explored with the bare Network
        tail = min(tail, 45.0)
        for o in ops:
            if o['gap'][0] == 'dt':
                o['gap'] = ['dt', min(o['gap'][1], 45.0)]
    glue = None
    rawg = case.get('glue')
    if isinstance(rawg, dict):
        glue = {'w': GLUE_WINDOWS[_num(rawg.get('w', 0), 0, 10 ** 6, 0, int) % len(GLUE_WINDOWS)],
                'rev': bool(rawg.get('rev', False)), 'extra': _num(rawg.get('extra', 0), 0, 10 ** 6, 0, int) % 4}
    return {
        'lat': _num(case.get('lat', 0.02), 0.0005, 3.0, 0.02),
        'full': full,
        'beh': beh,
        'ops': ops,
        'tail': tail,
        'glue': glue,
    }


# ---------------------------------------------------------------------------
# reference model

def _fold(calls):
    """calls: [(id, op, flagmask)] of one user in issue order -> (final set, [(type, id)] transitions)."""
    s = 0
    trans = []
    for cid, op, f in calls:
        s2 = (s | f) if op == 't' else (s & ~f)
        if s == 0 and s2 != 0:
            trans.append(('A', cid))
        elif s != 0 and s2 == 0:
            trans.append(('R', cid))
        s = s2
    return s, trans


def _collapse(types):
    out = []
    for t in types:
        if t == 'A' and out and out[-1] == 'A':
            continue
        out.append(t)
    return out


# ---------------------------------------------------------------------------
# execution on the virtual loop

def _exit_hint(um, name):
    """Observation only: is there a registered tracking worker for ``name`` whose task has already finished?"""
    try:
        tu = um._tracking_manager._tracked_users.get(name)
        return bool(tu is not None and tu.task is not None and tu.task.done())
    except Exception:
        return None


def _task_name(task):
    try:
        coro = task.get_coro()
        return getattr(coro, '__qualname__', None) or repr(coro)
    except Exception:
        return repr(task)


def _execute(norm):
    from aioslsk.events import ConnectionStateChangedEvent, EventBus, UserTrackingStateChangedEvent
    from aioslsk.network.connection import ConnectionState, ServerConnection
    from aioslsk.network.network import Network
    from aioslsk.protocol.messages import AddUser, GetUserStatus, Ping, RemoveUser
    from aioslsk.protocol.primitives import UserStats
    from aioslsk.user.manager import UserManager
    from aioslsk.user.model import TrackingFlag, TrackingState

    lat = norm['lat']
    ops = norm['ops']
    glue = norm.get('glue')
    obs = {'log': [], 'attempts': {u: [] for u in USERS}, 'frames': {u: [] for u in USERS}, 'call_errors': [],
           'final': {}, 'survivors': [], 'disc': None, 'segments': []}
    log = obs['log']

    async def main(world):
        loop = world.loop
        server = world.server
        server.listener.latency = lat
        arrival = {}
        retry_due = {}
        last_beh = {}

        def behaviour(username, n):
            if username not in USERS:
                return None
            seq = norm['beh'][USERS.index(username)]
            beh = BEH[seq[n % len(seq)]] if seq else 'exists'
            # [time the server got the request, behaviour, delay until the server writes the answer]
            obs['attempts'][username].append([loop.time(), beh, 0.0])
            last_beh[username] = beh
            # same float expression as simnet.Link._enqueue -> the exact instant the reply reaches the client
            arrival[username] = None if (beh == 'silent' or glue) else loop.time() + max(0.0005, lat)
            return beh
        server.add_user_behaviour = behaviour

        # glue mode: the answers to all AddUser requests of one collection window are written with ONE send (one TCP
        # segment, handled by the client's reader back-to-back), in arrival or reverse order, optionally together
        # with a GetUserStatus notification (as the real server does for a burst of AddUser requests after logon)
        batch = []
        batch_timer = [None]

        def flush(idx):
            batch_timer[0] = None
            items = batch[:]
            del batch[:]
            if glue['rev']:
                items.reverse()
            blobs = []
            now = loop.time()
            for name, att, beh in items:
                att[2] = now - att[0]
                arrival[name] = now + max(0.0005, lat)
                if beh == 'exists':
                    blobs.append(AddUser.Response(name, exists=True, status=2, user_stats=UserStats(1000, 5, 10, 2),
                                                  country_code='BE').serialize())
                else:
                    blobs.append(AddUser.Response(name, exists=False).serialize())
            if blobs and glue['extra']:
                status = GetUserStatus.Response(items[-1][0], 2, False).serialize()
                pos = {1: 0, 2: max(1, len(blobs) // 2), 3: len(blobs)}[glue['extra']]
                blobs.insert(pos, status)
            if blobs and not server.sessions[idx].dead:
                obs['segments'].append(len(items))
                server.send(b''.join(blobs), idx)

        def on_add_user(srv, idx, msg):
            if msg.username not in USERS:
                return False
            n = srv.add_user_attempts.get(msg.username, 0)
            srv.add_user_attempts[msg.username] = n + 1
            beh = behaviour(msg.username, n)
            if beh != 'silent':
                batch.append((msg.username, obs['attempts'][msg.username][-1], beh))
                if batch_timer[0] is None:
                    batch_timer[0] = loop.call_later(glue['w'], flush, idx)
            return True
        if glue:
            server.handlers[AddUser.Request] = on_add_user

        settings = simworld.mk_settings('me')
        client = None
        if norm['full']:
            client = await world.start_client(settings)
            bus, network, um = client.events, client.network, client.users
        else:
            bus = EventBus()
            network = Network(settings, bus)
            um = UserManager(settings, bus, network)
            await network.initialize()
            network.server_connection.start_reader_task()
        await asyncio.sleep(1.0)

        async def on_state(ev):
            name = ev.user.name
            if name not in USERS:
                return
            if ev.state == TrackingState.RETRY_PENDING:
                delay = RETRY_MISSING if last_beh.get(name) == 'missing' else RETRY_NET
                retry_due[name] = loop.time() + delay      # same float expression as asyncio.sleep -> call_later
            else:
                retry_due[name] = None

        begin_tasks = []

        async def on_conn_first(ev):
            if isinstance(ev.connection, ServerConnection) and ev.state == ConnectionState.CLOSED:
                log.append(('closed-begin', loop.time()))
                if not begin_tasks:
                    begin_tasks.extend(t for t in asyncio.all_tasks(loop) if not t.done())

        async def on_conn_last(ev):
            if isinstance(ev.connection, ServerConnection) and ev.state == ConnectionState.CLOSED:
                log.append(('closed', loop.time()))
        bus.register(UserTrackingStateChangedEvent, on_state)
        # documented EventBus priorities: before every library listener / after all of them
        bus.register(ConnectionStateChangedEvent, on_conn_first, priority=0)
        bus.register(ConnectionStateChangedEvent, on_conn_last, priority=10000)

        links = [l for l in world.net.links if l.name.endswith('%s:%d' % (simworld.SERVER_HOST, simworld.SERVER_PORT))]
        transport = links[0].sides[0]
        session = server.sessions[-1]

        async def keepalive():
            while True:
                await asyncio.sleep(200.0)
                if session.dead or session.peer_closed:
                    return
                server.send(Ping.Response())
        harness_tasks = [asyncio.ensure_future(keepalive())]
        driver = asyncio.current_task()

        async def wait_until(instant):
            if instant is not None and instant > loop.time():
                fut = loop.create_future()
                loop.call_at(instant, lambda: fut.done() or fut.set_result(None))
                await fut

        async def do_gap(gap, name, attempts_before):
            kind, val = gap
            if kind == 'it':
                await simloop.step(val)
            elif kind == 'dt':
                await asyncio.sleep(val)
            elif kind == 'retry':
                limit = loop.time() + ANSWER_TIMEOUT + 2 * lat + 1.0
                while (retry_due.get(name) is None or retry_due[name] <= loop.time()) and loop.time() < limit:
                    await asyncio.sleep(0.25)
                await wait_until(retry_due.get(name))
                await simloop.step(val)
            elif kind == 'reply':
                for _ in range(3):
                    if len(obs['attempts'][name]) > attempts_before:
                        break
                    await asyncio.sleep(lat / 2 + 0.0001)
                if len(obs['attempts'][name]) > attempts_before:
                    if glue and obs['attempts'][name][-1][1] != 'silent':
                        for _ in range(5):          # the answer leaves with the next flush of the collection window
                            if arrival.get(name) is not None:
                                break
                            await asyncio.sleep(glue['w'] / 3 + 0.0002)
                    await wait_until(arrival.get(name))
                await simloop.step(val)

        for i, op in enumerate(ops):
            name = USERS[op['u']]
            before = len(obs['attempts'][name])
            if op['op'] == 'x':
                kind = DISC_KINDS[op['k']]
                obs['disc'] = (kind, loop.time())
                log.append(('disc', loop.time(), kind))
                if kind == 'write_fail':
                    transport.fail_writes = ConnectionResetError('sim: write failed')
                else:
                    server.close_session(kind=kind)
            else:
                connected = network.server_connection.state == ConnectionState.CONNECTED
                log.append(('call', i, loop.time(), connected, _exit_hint(um, name)))
                try:
                    if op['op'] == 't':
                        await um.track_user(name, TrackingFlag(op['f']))
                    else:
                        await um.untrack_user(name, TrackingFlag(op['f']))
                except Exception as exc:  # the API documents no exception
                    obs['call_errors'].append((i, op['op'], type(exc).__name__, repr(exc)))
            await do_gap(op['gap'], name, before)

        await asyncio.sleep(norm['tail'])

        def user_frames():
            out = {u: [] for u in USERS}
            for t, _, m in server.frames:
                if isinstance(m, AddUser.Request) and m.username in out:
                    out[m.username].append((t, 'A'))
                elif isinstance(m, RemoveUser.Request) and m.username in out:
                    out[m.username].append((t, 'R'))
            return out

        # let the backlog drain (a silent attempt blocks the worker for the 10 s answer timeout)
        closed = any(e[0].startswith('closed') for e in log) or (obs['disc'] and obs['disc'][0] != 'write_fail')
        if not closed:
            want = {}
            for u_idx, u in enumerate(USERS):
                calls = [(i, o['op'], o['f']) for i, o in enumerate(ops) if o['op'] in 'tu' and o['u'] == u_idx]
                want[u] = len(_fold(calls)[1])
            limit = loop.time() + (ANSWER_TIMEOUT + 1.0) * (sum(want.values()) + 1)
            while loop.time() < limit:
                fr = user_frames()
                if all(len(_collapse([k for _, k in fr[u]])) >= want[u] for u in USERS):
                    break
                await asyncio.sleep(0.5)
            await asyncio.sleep(2 * lat + 0.05 + (glue['w'] if glue else 0.0))
            # an unanswered last attempt still blocks the worker (and the calls queued behind it) until its timeout
            fr = user_frames()
            wake = loop.time()
            for u in USERS:
                if fr[u] and fr[u][-1][1] == 'A' and obs['attempts'][u] and obs['attempts'][u][-1][1] == 'silent':
                    wake = max(wake, fr[u][-1][0] + ANSWER_TIMEOUT + 0.05)
            await wait_until(wake)
        else:
            # calls issued after the close start workers whose AddUser is silently not sent: 10 s per attempt
            x_pos = next((i for i, o in enumerate(ops) if o['op'] == 'x'), len(ops))
            later_tracks = sum(1 for o in ops[x_pos:] if o['op'] == 't')
            extra = (ANSWER_TIMEOUT + 0.5) * (later_tracks + 1) - norm['tail']
            if later_tracks and extra > 0:
                await asyncio.sleep(extra)

        if transport.dead and not any(e[0] == 'closed' for e in log):
            await asyncio.sleep(1.0)     # the close is handled in zero virtual time; one more second to be sure
        obs['frames'] = user_frames()
        obs['t_end'] = loop.time()
        obs['log'] = list(log)       # the teardown below closes the connection too
        obs['transport_dead'] = bool(transport.dead)
        obs['conn_state'] = network.server_connection.state.name
        for u in USERS:
            obs['final'][u] = (um.get_tracking_flags(u).value, um.get_tracking_state(u).value)
        # tracking worker / retry tasks that existed when CLOSED was announced and are still alive
        obs['survivors'] = [_task_name(t) for t in begin_tasks
                            if not t.done() and 'UserTrackingManager' in _task_name(t)]
        obs['alive'] = sorted(_task_name(t) for t in asyncio.all_tasks(loop)
                              if not t.done() and t is not driver and t not in harness_tasks)
        obs['loop_errors'] = list(loop.errors)

        # teardown (never raises: a task that waits for itself cannot be cancelled, Task.cancel recurses)
        for t in harness_tasks:
            t.cancel()
        try:
            if client is not None:
                await asyncio.wait_for(client.stop(), 30.0)
        except Exception:  # observations are already stored (includes RecursionError / TimeoutError)
            pass
        for _ in range(3):
            pending = [t for t in asyncio.all_tasks(loop) if not t.done() and t is not driver]
            if not pending:
                break
            for t in pending:
                try:
                    t.cancel()
                except RecursionError:
                    try:
                        asyncio.Future.cancel(t._fut_waiter)     # break the wait cycle
                    except Exception:
                        pass
            await asyncio.sleep(0.01)
        try:
            await asyncio.wait_for(network.disconnect(), 30.0)
        except Exception:
            pass
        return None

    try:
        simworld.run_world(main)
    except RecursionError:
        obs['teardown_recursion'] = True
    return obs


# ---------------------------------------------------------------------------
# oracle

def _frames_verdict(types, trans, prefix_ok):
    """Compare the merged frame types with the model transitions. None = fine, else (what, index)."""
    got = _collapse(types)
    want = [t for t, _ in trans]
    n = min(len(got), len(want))
    for i in range(n):
        if got[i] != want[i]:
            return ('unexpected', i)
    if len(got) > len(want):
        return ('unexpected', len(want))
    if len(got) < len(want) and not prefix_ok:
        return ('missing', len(got))
    return None


def run_case(case) -> CaseResult:
    if isinstance(case, dict) and case.get('tier') == 'xfer':
        return _run_xfer_case(case)
    return _run_track_case(case)


def _run_track_case(case) -> CaseResult:
    res = CaseResult()
    norm = _sanitise(case)
    ops = norm['ops']
    if not any(o['op'] in 'tu' for o in ops):
        return res
    obs = _execute(norm)
    lat = norm['lat']
    log = obs['log']
    t_end = obs['t_end']

    begin_pos = next((p for p, e in enumerate(log) if e[0] == 'closed-begin'), None)
    closed_pos = next((p for p, e in enumerate(log) if e[0] == 'closed'), None)
    dropped = begin_pos is not None          # CLOSED was announced: the tracking manager has to drop everything
    closed_time = log[begin_pos][1] if dropped else None
    disc = obs['disc']
    # the server stops recording when it closes (eof/reset) / when the client's failing write happens
    if disc and disc[0] != 'write_fail':
        cut_time = disc[1]
    else:
        cut_time = closed_time
    broken = cut_time is not None

    chain_aborted = False
    if obs.get('transport_dead') and closed_pos is None:
        # the connection broke but the CLOSED notification did not get past the library's listeners
        recursion = any(e.get('exc_type') == 'RecursionError' for e in obs['loop_errors'])
        if recursion or obs['survivors'] or not dropped:
            sub = ('close-handler-waits-for-itself(RecursionError)' if recursion else
                   'worker-survives-cancel' if obs['survivors'] else 'closed-never-announced')
            res.violate('C15/server-close-never-completes:%s' % sub,
                        'connection broken (%s at t=%.3f), state=%s, but ConnectionStateChangedEvent(CLOSED) %s by '
                        't=%.3f; flags/state still reported: %s; tracking tasks from before the break still alive: %s; '
                        'all tasks alive: %s; loop errors: %s' % (
                            disc[0] if disc else '?', disc[1] if disc else -1.0, obs.get('conn_state'),
                            'never got past the library listeners' if dropped else 'was never emitted', t_end,
                            obs['final'], obs['survivors'], obs.get('alive'),
                            [(e.get('exc_type'), e.get('message', '')[:60]) for e in obs['loop_errors'][:2]]))
            res.nontrivial = True
            res.label('disconnect:' + (disc[0] if disc else 'unknown'), 'close-never-completes')
            return res      # nothing observed afterwards can be interpreted
        # the listener chain was cut short after the tracking manager had done its part (another component's
        # business, e.g. the task performing the close got cancelled): calls after the break stay ambiguous
        chain_aborted = True

    for i, op, exc_type, text in obs['call_errors']:
        res.violate('C15/unexpected-exception:%s@%s' % (exc_type, 'track_user' if op == 't' else 'untrack_user'),
                    'op #%d raised %s' % (i, text))

    calls = {}      # id -> dict
    for pos, e in enumerate(log):
        if e[0] != 'call':
            continue
        _, cid, t, connected, hint = e
        if connected:
            phase = 'pre'
        elif closed_pos is not None and pos > closed_pos:
            phase = 'post'
        else:
            phase = 'amb'
        calls[cid] = {'id': cid, 't': t, 'phase': phase, 'hint': hint, 'op': ops[cid]['op'], 'u': ops[cid]['u'],
                      'f': ops[cid]['f'], 'pos': pos}

    labels = set()
    nontrivial = False
    if any(c['hint'] for c in calls.values()):
        labels.add('call-in-worker-exit-window')
    if broken:
        labels.add('disconnect:' + disc[0] if disc else 'disconnect')
    if any(c['phase'] == 'amb' for c in calls.values()):
        labels.add('call-during-close')
    if any(c['phase'] == 'post' for c in calls.values()):
        labels.add('call-after-close')

    for u_idx, user in enumerate(USERS):
        mine = [c for c in sorted(calls.values(), key=lambda c: c['pos']) if c['u'] == u_idx]
        if not mine:
            continue
        pre = [c for c in mine if c['phase'] == 'pre']
        amb = [c for c in mine if c['phase'] == 'amb']
        post = [c for c in mine if c['phase'] == 'post']
        frames = obs['frames'][user]
        attempts = obs['attempts'][user]
        flags, state = obs['final'][user]

        def as_calls(cs):
            return [(c['id'], c['op'], c['f']) for c in cs]

        def acceptable_finals(pre_, amb_, post_):
            if not dropped and not amb_ and not post_:
                return {_fold(as_calls(pre_))[0]}
            out = set()
            for r in range(len(amb_) + 1):
                for keep in itertools.combinations(amb_, r):
                    out.add(_fold(as_calls(list(keep) + post_))[0])
            if not dropped:
                # connection closing but CLOSED not announced before the end: nothing was reset yet
                out.add(_fold(as_calls(pre_ + amb_ + post_))[0])
            return out

        s_pre, trans = _fold(as_calls(pre))
        types = [k for _, k in frames]
        verdict = _frames_verdict(types, trans, broken)

        # -- labels / non-trivial ---------------------------------------------
        s = 0
        prev = None
        for c in pre:
            s2 = (s | c['f']) if c['op'] == 't' else (s & ~c['f'])
            if c['op'] == 't' and s == 0 and prev is not None and prev['emptied'] and c['t'] == prev['t']:
                labels.add('track-right-after-set-emptied')
                nontrivial = True
            inflight = [a for a in attempts
                        if a[0] - lat <= c['t'] <= a[0] + (lat + a[2] if a[1] != 'silent' else ANSWER_TIMEOUT - lat)]
            if inflight:
                labels.add('call-while-attempt-in-flight')
                nontrivial = True
            prev = {'emptied': s != 0 and s2 == 0, 't': c['t']}
            s = s2
        if broken and s_pre:
            labels.add('disconnect-with-reasons')
            nontrivial = True

        # -- final flags / lost calls ---------------------------------------------
        ok_finals = acceptable_finals(pre, amb, post)
        if flags not in ok_finals or verdict is not None:
            # is the observation explained exactly by one (or two) calls that had no effect at all?
            def explains(victims):
                pre2 = [c for c in pre if c not in victims]
                amb2 = [c for c in amb if c not in victims]
                post2 = [c for c in post if c not in victims]
                if flags not in acceptable_finals(pre2, amb2, post2):
                    return False
                return _frames_verdict(types, _fold(as_calls(pre2))[1], broken) is None
            def exit_window(v):
                same = [c for c in mine if c['phase'] == v['phase']]
                k = same.index(v)
                if v['op'] != 't' or _fold(as_calls(same[:k]))[0] != 0:
                    return False
                if v['hint']:
                    return True
                return bool(k and _fold(as_calls(same[:k - 1]))[0] != 0 and same[k - 1]['t'] == v['t'])
            order = sorted(mine, key=lambda c: (not exit_window(c), c['pos']))
            if flags in ok_finals:
                # only the frames disagree: accept the explanation only for the known shape (a track call right after
                # the set was emptied), otherwise report the frames themselves
                order = [c for c in order if exit_window(c)]
            lost = next(([v] for v in order if explains([v])), None)
            if lost is None:
                lost = next(([a, b] for a, b in itertools.combinations(order, 2) if explains([a, b])), None)
            if lost is not None:
                kinds = set()
                notes = []
                for v in lost:
                    same = [c for c in mine if c['phase'] == v['phase']]
                    k = same.index(v)
                    s_before = _fold(as_calls(same[:k]))[0]
                    prev_c = same[k - 1] if k else None
                    emptied_just_before = bool(prev_c is not None and s_before == 0 and
                                               _fold(as_calls(same[:k - 1]))[0] != 0 and prev_c['t'] == v['t'])
                    if v['op'] == 't':
                        window = 'worker-exit-window' if exit_window(v) else 'other'
                        kinds.add('C15/track-call-lost:' + window)
                    else:
                        kinds.add('C15/untrack-call-lost')
                    notes.append("call #%d (%s %s flag=%d at t=%.4f%s, issued %s)" % (
                        v['id'], 'track_user' if v['op'] == 't' else 'untrack_user', user, v['f'], v['t'],
                        ', worker task already finished but still registered' if v['hint'] else '',
                        'in the same instant as the call that emptied the set' if emptied_just_before
                        else 'with model set %d' % s_before))
                for kind in sorted(kinds):
                    res.violate(kind, "%s: %s had no effect: final flags=%d, model allows %s, model transitions %s, "
                                      "frames=%s" % (user, ' and '.join(notes), flags, sorted(ok_finals),
                                                     [t for t, _ in trans], types))
                continue        # everything else observed for this user is a consequence
        if flags not in ok_finals:
            res.violate('C15/final-flags-differ', '%s: get_tracking_flags=%d, model allows %s (calls %s)' % (
                user, flags, sorted(ok_finals), [(c['op'], c['f'], c['phase']) for c in mine]))

        # -- frame sequence -----------------------------------------------------
        if verdict is not None:
            what, idx = verdict
            got = _collapse(types)
            want = [t for t, _ in trans]
            if what == 'missing':
                res.violate('C15/transition-not-sent:%s' % ('AddUser' if want[idx] == 'A' else 'RemoveUser'),
                            '%s: model transitions %s, server saw %s (raw %s) by t=%.3f' % (user, want, got, types, t_end))
            else:
                res.violate('C15/unexpected-frame:%s' % ('AddUser' if got[idx] == 'A' else 'RemoveUser'),
                            '%s: model transitions %s, server saw %s (raw %s)' % (user, want, got, types))

        # -- retries ------------------------------------------------------------
        a_idx = -1
        a_frames = []          # (time, behaviour, answer delay at the server) for every AddUser frame
        for t, k in frames:
            if k == 'A':
                a_idx += 1
                a_frames.append((t, attempts[a_idx][1], attempts[a_idx][2]) if a_idx < len(attempts)
                                else (t, 'exists', 0.0))
        ai = -1
        stale_active = False
        for j, (t, k) in enumerate(frames):
            if k != 'A':
                stale_active = False
                continue
            ai += 1
            beh = a_frames[ai][1]
            due_gap = None if beh == 'exists' else (
                ANSWER_TIMEOUT + RETRY_NET if beh == 'silent' else RETRY_MISSING + 2 * lat + a_frames[ai][2])
            nxt = frames[j + 1] if j + 1 < len(frames) else None
            if nxt is not None and nxt[1] == 'A':
                gap = nxt[0] - t
                stale = False
                if j >= 2 and frames[j - 1][1] == 'R' and frames[j - 2][1] == 'A' and ai >= 1:
                    t0, beh0, d0 = a_frames[ai - 1]
                    if beh0 != 'exists':
                        due0 = t0 + (ANSWER_TIMEOUT + RETRY_NET if beh0 == 'silent' else RETRY_MISSING + 2 * lat + d0)
                        stale = abs(frames[j - 1][0] - due0) <= EPS
                if stale_active and beh != 'exists' and gap < due_gap:
                    pass        # two retry chains run interleaved since the stale retry: same root cause
                elif stale and (beh == 'exists' or abs(gap - due_gap) > EPS):
                    stale_active = True
                    # the retry of the previous tracking period was already queued when the set was emptied and
                    # refilled in the very instant it fired: it is executed although its attempt was superseded
                    res.violate('C15/stale-retry-sent-after-untrack-and-retrack',
                                '%s: attempt at %.4f (%s) was followed by RemoveUser and a fresh AddUser at the instant '
                                'its retry was due; the fresh AddUser at %.4f (answered %s) was followed by another '
                                'AddUser %.4f s later (frames %s)' % (user, a_frames[ai - 1][0], a_frames[ai - 1][1], t,
                                                                     beh, gap, frames))
                elif beh == 'exists':
                    res.violate('C15/add-repeated-after-confirmation',
                                '%s: AddUser at %.4f answered exists, another AddUser %.4f s later without a RemoveUser '
                                'in between (frames %s)' % (user, t, gap, frames))
                elif abs(gap - due_gap) > EPS:
                    res.violate('C15/retry-delay:%s:%s' % (beh, 'early' if gap < due_gap else 'late'),
                                '%s: attempt at %.4f was %s, next AddUser after %.4f s, expected %.4f s (frames %s)' % (
                                    user, t, beh, gap, due_gap, frames))
                else:
                    labels.add('retry:' + beh)
            elif due_gap is not None:
                horizon = nxt[0] if nxt is not None else (cut_time if broken else t_end)
                if nxt is not None and nxt[0] < t + due_gap:
                    labels.add('set-emptied-while-retry-pending')
                    nontrivial = True
                if horizon > t + due_gap + DUE_MARGIN and verdict is None:
                    res.violate('C15/retry-missing:%s' % beh,
                                '%s: attempt at %.4f was %s, a retry was due %.3f s later but nothing was sent until '
                                '%.4f (frames %s)' % (user, t, beh, due_gap, horizon, frames))

        # -- final state ----------------------------------------------------------
        if flags in ok_finals and verdict is None:
            if flags == 0:
                if state != 'untracked':
                    res.violate('C15/final-state:%s-but-set-empty' % state, '%s: flags=0 state=%s' % (user, state))
            elif dropped:
                if state == 'tracked':
                    res.violate('C15/final-state:tracked-but-disconnected',
                                '%s: flags=%d state=tracked after the server connection closed at %.3f' % (
                                    user, flags, closed_time))
            elif not broken and a_frames:
                t_last, beh, d_last = a_frames[-1]
                if beh == 'silent':
                    in_flight = t_end < t_last - lat + ANSWER_TIMEOUT + 0.01
                else:
                    # an answer that the glueing server still holds back when the case ends has no recorded delay yet
                    held = (norm.get('glue') or {}).get('w', 0.0)
                    in_flight = t_end < t_last + lat + max(d_last, held) + 0.01
                if in_flight:
                    labels.add('final-state-check-skipped:answer-in-flight')
                else:
                    want_tracked = beh == 'exists'
                    if (state == 'tracked') != want_tracked:
                        reason = {'exists': 'confirmed', 'missing': 'user-missing', 'silent': 'no-answer'}[beh]
                        res.violate('C15/final-state:%s-but-%s' % (state, reason),
                                    '%s: flags=%d, last AddUser at %.4f was answered %r, state=%s at %.4f' % (
                                        user, flags, t_last, beh, state, t_end))
                    labels.add('final:' + state)
            if flags == 0:
                labels.add('final:empty')

    if chain_aborted:
        labels.add('close-listener-chain-cut-after-tracking')
    if dropped and obs['survivors']:
        res.violate('C15/task-survives-server-close:%s' % sorted(obs['survivors'])[0].split('.')[-1],
                    'alive %.1f s after the close: %s' % (t_end - closed_time, sorted(obs['survivors'])))
    for e in obs['loop_errors']:
        res.violate('C15/loop-error:%s' % e.get('exc_type'), str(e)[:400])
        break

    if norm.get('glue'):
        labels.add('glue')
        if any(n >= 2 for n in obs.get('segments', [])):
            labels.add('answers-of-several-users-in-one-segment')
            nontrivial = True
    res.nontrivial = nontrivial
    res.label(*sorted(labels))
    res.label('full-client' if norm['full'] else 'bare-network')
    return res


# ---------------------------------------------------------------------------
# second tier ('tier': 'xfer'): the TRANSFER reason comes from the real TransferManager of a full client, the other
# reasons from the user API, across server disconnects and re-logins

XFER_SLOTS = 3
XFER_GAPS = [0.0, 0.01, 0.06, 0.3, 1.5, 1.5, 3.0]
XFER_SETTLE = 1.5            # a checkpoint needs this much quiet time (management cycle <= 0.25 s, AddUser round trip)
XFER_LOGIN_SETTLE = 22.0     # a worker started while disconnected reaches the new session with its next retry (<= 20 s)
XFER_OPS = ['add', 'abort', 'remove', 'pause', 'queue', 't', 'u', 'x', 'login', 'fadd', 'fdel', 'fset']
XFER_FRIEND_GAPS = [0.0, 0.06, 0.3, 0.3, 1.5, 1.5, 3.0, 7.0]
XFER_LISTENER_SLEEPS = [0.0, 0.1, 0.5, 1.0, 2.0]    # application FriendListChangedEvent listener that suspends
FRIEND_BIT = 4
XFER_MODES = ['virgin', 'paused', 'queued']
TRANSFER_BIT = 2


@st.composite
def xfer_strategy(draw):
    ops = []
    slots = {}           # slot -> user (generator-side plausibility only)
    logged_in = True
    n = draw(st.integers(2, 10))
    friendly = draw(st.integers(0, 9)) < 4      # the FRIEND reason comes from settings.users.friends in these cases
    for _ in range(n):
        w = draw(st.integers(0, 19))
        gap = draw(st.sampled_from(XFER_FRIEND_GAPS if friendly else XFER_GAPS))
        if friendly and draw(st.integers(0, 1)):
            kind = draw(st.sampled_from(['fadd', 'fadd', 'fdel', 'fdel', 'fset']))
            op = {'op': kind, 'u': draw(st.integers(0, 2)), 'gap': gap, 'sync': draw(st.integers(0, 2)) == 0}
            if kind == 'fset':
                op['mask'] = draw(st.integers(0, 7))
            ops.append(op)
            continue
        if w < 5 or not slots:
            free = [k for k in range(XFER_SLOTS) if k not in slots]
            if free:
                k = draw(st.sampled_from(free))
                u = draw(st.integers(0, 1))
                slots[k] = u
                ops.append({'op': 'add', 'slot': k, 'u': u, 'mode': draw(st.sampled_from(XFER_MODES)), 'gap': gap})
                continue
        if w < 8 and slots:
            ops.append({'op': draw(st.sampled_from(['abort', 'abort', 'pause', 'queue'])),
                        'slot': draw(st.sampled_from(sorted(slots))), 'gap': gap})
        elif w < 10 and slots:
            k = draw(st.sampled_from(sorted(slots)))
            del slots[k]
            ops.append({'op': 'remove', 'slot': k, 'gap': gap})
        elif w < 14:
            ops.append({'op': draw(st.sampled_from(['t', 't', 'u'])), 'u': draw(st.integers(0, 1)),
                        'f': draw(st.sampled_from([1, 1, 0])) if friendly else draw(st.sampled_from([1, 4, 1, 4, 5, 0])), 'gap': gap})
        elif logged_in and w < 18:
            logged_in = False
            ops.append({'op': 'x', 'k': draw(st.integers(0, 2)), 'gap': gap})
        elif not logged_in:
            logged_in = True
            ops.append({'op': 'login', 'gap': gap})
        else:
            ops.append({'op': 'u', 'u': draw(st.integers(0, 1)),
                        'f': draw(st.sampled_from([1, 1, 0])) if friendly else draw(st.sampled_from([1, 4, 1, 4, 5, 0])),
                        'gap': gap})
    case = {'tier': 'xfer', 'lat': draw(st.sampled_from([0.001, 0.02])), 'ops': ops}
    if friendly:
        case['friends0'] = draw(st.sampled_from([0, 0, 1, 3, 5, 7]))
        case['ld'] = draw(st.sampled_from(XFER_LISTENER_SLEEPS))
        case['lprio'] = draw(st.integers(0, 1))
    return case


def _sanitise_xfer(case):
    ops = []
    raw = case.get('ops')
    for o in (raw if isinstance(raw, list) else [])[:12]:
        if not isinstance(o, dict) or o.get('op') not in XFER_OPS:
            continue
        op = {'op': o['op'], 'gap': _num(o.get('gap', 0.0), 0.0, 8.0, 0.0),
              'slot': _num(o.get('slot', 0), 0, 10 ** 6, 0, int) % XFER_SLOTS,
              'u': _num(o.get('u', 0), 0, 10 ** 6, 0, int) % len(USERS)}
        if op['op'] == 'add':
            op['mode'] = o.get('mode') if o.get('mode') in XFER_MODES else 'paused'
        elif op['op'] in 'tu':
            op['f'] = _num(o.get('f', 1), 0, 10 ** 6, 1, int) & 5      # any of {}, REQUESTED, FRIEND, both; never TRANSFER
        elif op['op'] == 'x':
            op['k'] = _num(o.get('k', 0), 0, 10 ** 6, 0, int) % len(DISC_KINDS)    # eof | reset | failing write
        elif op['op'] in ('fadd', 'fdel', 'fset'):
            op['mask'] = _num(o.get('mask', 0), 0, 10 ** 6, 0, int) & 7
            op['sync'] = bool(o.get('sync', False))
        ops.append(op)
    friends0 = _num(case.get('friends0', 0), 0, 10 ** 6, 0, int) & 7
    if friends0 or any(o['op'] in ('fadd', 'fdel', 'fset') for o in ops):
        # the FRIEND bit is owned by the friend list in these cases: the user API only handles REQUESTED
        for o in ops:
            if o['op'] in ('t', 'u'):
                o['f'] &= 1
    return {'lat': _num(case.get('lat', 0.02), 0.0005, 0.05, 0.02), 'ops': ops, 'friends0': friends0,
            'ld': _num(case.get('ld', 0.0), 0.0, 2.0, 0.0), 'lprio': _num(case.get('lprio', 0), 0, 1, 0, int)}


def _run_xfer_case(case) -> CaseResult:
    res = CaseResult()
    norm = _sanitise_xfer(case)
    ops = norm['ops']
    if not ops:
        return res
    from aioslsk.events import FriendListChangedEvent
    from aioslsk.exceptions import InvalidStateTransition
    from aioslsk.protocol.messages import AddUser, RemoveUser
    from aioslsk.transfer.model import Transfer, TransferDirection
    from aioslsk.user.model import TrackingFlag

    lat = norm['lat']
    found = []          # (kind, detail)
    labels = set()
    info = {'checkpoints': 0, 'errors': []}

    async def main(world):
        loop = world.loop
        server = world.server
        server.listener.latency = lat
        settings = simworld.mk_settings('me')
        settings.users.friends = {USERS[i] for i in range(len(USERS)) if norm['friends0'] >> i & 1}
        client = world.make_client(settings)
        ld = norm['ld']
        listener = {'active': 0, 'starts': 0}

        async def app_friend_listener(event):
            # an application listener that suspends (stores the list, asks the UI, ...)
            listener['active'] += 1
            listener['starts'] += 1
            try:
                await asyncio.sleep(ld)
            finally:
                listener['active'] -= 1
        if ld > 0:
            # documented EventBus priority: before (50) or after (150) the library's own listeners (100)
            client.events.register(FriendListChangedEvent, app_friend_listener, priority=50 if norm['lprio'] else 150)
            labels.add('suspending-friend-listener:%s' % ('before-library' if norm['lprio'] else 'after-library'))
        await client.start()
        await client.login()
        um, tm = client.users, client.transfers
        friends = client.settings.users.friends
        await asyncio.sleep(1.0)
        friend_quiet = 2 * ld + 1.6      # running listener + 1 s job interval + next delivery (+ its listener)
        last_friend_op = -1e9
        friend_op_in_listener = {}   # user -> the last friend-list change of that user was made while the listener slept

        api = [0] * len(USERS)       # user API reasons since the tracking state was last dropped
        slots = {}                   # slot -> Transfer
        removed_users = set()        # users that had a transfer removed from the manager
        blamed = set()               # users with a reported violation: later observations are consequences
        logged_in = True
        login_time = loop.time()
        quiet_since = loop.time()

        def session_frames(name):
            cur = len(server.sessions) - 1
            out = []
            for t, idx, m in server.frames:
                if idx == cur and isinstance(m, (AddUser.Request, RemoveUser.Request)) and m.username == name:
                    out.append((round(t, 4), 'A' if isinstance(m, AddUser.Request) else 'R'))
            return out

        def checkpoint(where):
            info['checkpoints'] += 1
            cur = len(server.sessions) - 1
            for u_idx, name in enumerate(USERS):
                if name in blamed:
                    continue
                mine = [t for t in tm.transfers if t.username == name]
                unfinished = [t for t in mine if not t.is_finalized()]
                reasons = api[u_idx] | (TRANSFER_BIT if unfinished else 0) | (
                    FRIEND_BIT if name in client.settings.users.friends else 0)
                flags = um.get_tracking_flags(name).value
                state = um.get_tracking_state(name).value
                frames = session_frames(name)
                types = [k for _, k in frames]
                ctx = '%s at %s (t=%.3f, session #%d): transfers %s, user-API reasons %d, settings.users.friends %s, ' \
                      'get_tracking_flags=%d, state=%s, AddUser/RemoveUser on this session %s' % (
                          name, where, loop.time(), cur, [(t.remote_path[-5:], t.state.VALUE.name) for t in mine],
                          api[u_idx], sorted(client.settings.users.friends), flags, state, frames)
                if flags != reasons:
                    blamed.add(name)
                    diff = flags ^ reasons
                    if diff == FRIEND_BIT:
                        found.append(('C15/xfer:friend-reason-%s:%s' % (
                            'missing' if reasons & FRIEND_BIT else 'kept',
                            'list-changed-while-listener-suspended' if friend_op_in_listener.get(name) else 'other'),
                            ctx))
                        continue
                    if diff == TRANSFER_BIT and unfinished:
                        found.append(('C15/xfer:transfer-reason-missing:%s' % (
                            'after-relogin' if cur > 0 else 'first-session'), ctx))
                    elif diff == TRANSFER_BIT:
                        found.append(('C15/xfer:transfer-reason-kept:%s' % (
                            'after-remove' if name in removed_users else 'other'), ctx))
                    else:
                        found.append(('C15/xfer:flags-differ', ctx))
                    continue
                if cur > 0 and types[:1] == ['R']:
                    # a reason added while disconnected (AddUser silently not sent: the 'send failure' regime) and
                    # removed again is untracked on the new session: justified by a model transition, not flagged
                    types = types[1:]
                    labels.add('removeuser-for-attempt-made-while-disconnected')
                alternating = all(k == ('A' if i % 2 == 0 else 'R') for i, k in enumerate(types))
                tracked_on_server = bool(types) and types[-1] == 'A'
                if not alternating:
                    blamed.add(name)
                    found.append(('C15/xfer:unexpected-frame:%s' % (
                        'AddUser' if any(a == b == 'A' for a, b in zip(types, types[1:])) else 'RemoveUser'), ctx))
                elif tracked_on_server != bool(reasons):
                    blamed.add(name)
                    found.append(('C15/xfer:%s' % ('not-tracked-on-current-session' if reasons
                                                   else 'still-tracked-on-current-session'), ctx))
                elif (state == 'tracked') != bool(reasons):
                    blamed.add(name)
                    found.append(('C15/xfer:state-%s-with-reasons-%d' % (state, 1 if reasons else 0), ctx))
                if reasons & TRANSFER_BIT and reasons != TRANSFER_BIT:
                    labels.add('transfer-and-api-reason')
                if reasons == TRANSFER_BIT and cur > 0:
                    labels.add('transfer-reason-only-after-relogin')

        async def lib(what, coro):
            try:
                await coro
            except InvalidStateTransition:
                labels.add('refused:' + what)          # documented refusal
            except Exception as exc:
                info['errors'].append((what, type(exc).__name__, repr(exc)[:200]))

        for i, op in enumerate(ops):
            kind = op['op']
            gap = op['gap']
            if kind == 'add':
                if op['slot'] not in slots:
                    tr = Transfer(USERS[op['u']], '@@abc\\music\\f%d.mp3' % op['slot'], TransferDirection.DOWNLOAD)
                    slots[op['slot']] = tr
                    await lib('add', tm.add(tr))
                    if op['mode'] == 'paused':
                        await lib('pause', tm.pause(tr))
                    elif op['mode'] == 'queued':
                        await lib('queue', tm.queue(tr))
                    labels.add('add:' + op['mode'])
            elif kind in ('abort', 'pause', 'queue'):
                tr = slots.get(op['slot'])
                if tr is not None:
                    await lib(kind, getattr(tm, kind)(tr))
                    labels.add(kind)
            elif kind == 'remove':
                tr = slots.pop(op['slot'], None)
                if tr is not None:
                    removed_users.add(tr.username)
                    labels.add('remove-unfinished' if not tr.is_finalized() else 'remove-finished')
                    await lib('remove', tm.remove(tr))
            elif kind in 'tu':
                flag = TrackingFlag(op['f'])
                if kind == 't':
                    api[op['u']] |= op['f']
                    await lib('track_user', um.track_user(USERS[op['u']], flag))
                else:
                    api[op['u']] &= ~op['f']
                    await lib('untrack_user', um.untrack_user(USERS[op['u']], flag))
            elif kind == 'x':
                if logged_in:
                    logged_in = False
                    api[:] = [0] * len(USERS)     # everything is dropped with the connection
                    if DISC_KINDS[op['k']] == 'write_fail':
                        # the next write fails; provoke it with the AddUser of a tracking worker (the sender task
                        # then closes the connection, which cancels the worker that waits for that sender)
                        link = [l for l in world.net.links if l.name.endswith(
                            '%s:%d' % (simworld.SERVER_HOST, simworld.SERVER_PORT))][-1]
                        link.sides[0].fail_writes = ConnectionResetError('sim: write failed')
                        await lib('track_user', um.track_user('wf', TrackingFlag.REQUESTED))
                    else:
                        server.close_session(kind=DISC_KINDS[op['k']])
                    labels.add('disconnect:' + DISC_KINDS[op['k']])
                    gap = max(gap, 0.3)     # the close is processed one latency later: no calls inside that window
            elif kind == 'login':
                if not logged_in:
                    await client.network.connect_server()
                    await client.login()
                    logged_in = True
                    login_time = loop.time()
                    labels.add('relogin')
                    gap = max(gap, XFER_LOGIN_SETTLE)
            elif kind in ('fadd', 'fdel', 'fset'):
                # the documented way: change settings.users.friends in place (or assign a new set); the user
                # management job notices the difference and announces it with a FriendListChangedEvent
                name = USERS[op['u']]
                before = set(client.settings.users.friends)
                if kind == 'fadd':
                    client.settings.users.friends.add(name)
                elif kind == 'fdel':
                    client.settings.users.friends.discard(name)
                else:
                    client.settings.users.friends = {USERS[b] for b in range(len(USERS)) if op['mask'] >> b & 1}
                for changed in before ^ set(client.settings.users.friends):
                    friend_op_in_listener[changed] = bool(listener['active'])
                    if listener['active']:
                        labels.add('friend-list-changed-while-listener-suspended')
                    last_friend_op = loop.time()
                labels.add('friend-list:' + kind)
                if op['sync'] and ld > 0:
                    # let the next change land inside the listener that is delivering this one
                    starts = listener['starts']
                    limit = loop.time() + ld + 1.3
                    while listener['starts'] == starts and loop.time() < limit:
                        await asyncio.sleep(0.05)
                    gap = min(gap, ld * 0.5)
            quiet_since = loop.time()
            if gap > 0:
                await asyncio.sleep(gap)
            if logged_in and gap >= XFER_SETTLE and loop.time() - login_time >= (
                    XFER_LOGIN_SETTLE if len(server.sessions) > 1 else XFER_SETTLE) and \
                    loop.time() - last_friend_op >= friend_quiet:
                checkpoint('op #%d %s' % (i, kind))

        if not logged_in:
            await client.network.connect_server()
            await client.login()
            login_time = loop.time()
            labels.add('relogin')
        wait = max(XFER_SETTLE + 0.5, (XFER_LOGIN_SETTLE if len(server.sessions) > 1 else 0.0) - (loop.time() - login_time),
                   friend_quiet + 0.5 - (loop.time() - last_friend_op))
        await asyncio.sleep(wait)
        checkpoint('end')
        info['loop_errors'] = list(loop.errors)
        try:
            await asyncio.wait_for(client.stop(), 30.0)
        except Exception:
            pass

    simworld.run_world(main)
    for kind, detail in found:
        res.violate(kind, detail)
    for what, exc_type, text in info['errors']:
        res.violate('C15/xfer:unexpected-exception:%s@%s' % (exc_type, what), text)
    for e in info.get('loop_errors', []):
        res.violate('C15/xfer:loop-error:%s' % e.get('exc_type'), str(e)[:400])
        break
    res.nontrivial = 'relogin' in labels or 'transfer-and-api-reason' in labels or 'remove-unfinished' in labels or \
        'friend-list-changed-while-listener-suspended' in labels
    res.label('tier:xfer', *sorted(labels))
    return res


def _enumerated_xfer_cases():
    out = []
    for lat in (0.001, 0.02):
        for k in (0, 1, 2):
            for mode in XFER_MODES:
                # unfinished transfer survives a disconnect: TRANSFER must be announced again on the new session
                out.append({'tier': 'xfer', 'lat': lat, 'ops': [
                    {'op': 'add', 'slot': 0, 'u': 0, 'mode': mode, 'gap': 1.5},
                    {'op': 'x', 'k': k, 'gap': 1.5},
                    {'op': 'login', 'gap': 0.0},
                    {'op': 'abort', 'slot': 0, 'gap': 1.5}]})
                # ... together with a user-API reason that is taken away after the re-login
                out.append({'tier': 'xfer', 'lat': lat, 'ops': [
                    {'op': 't', 'u': 0, 'f': 1, 'gap': 0.06},
                    {'op': 'add', 'slot': 0, 'u': 0, 'mode': mode, 'gap': 1.5},
                    {'op': 'add', 'slot': 1, 'u': 1, 'mode': 'paused', 'gap': 0.0},
                    {'op': 'x', 'k': k, 'gap': 0.3},
                    {'op': 't', 'u': 0, 'f': 4, 'gap': 0.3},
                    {'op': 'login', 'gap': 0.0},
                    {'op': 'u', 'u': 0, 'f': 4, 'gap': 1.5},
                    {'op': 'abort', 'slot': 0, 'gap': 1.5},
                    {'op': 'abort', 'slot': 1, 'gap': 1.5}]})
    for mode in XFER_MODES:
        for gap in (0.0, 0.06, 1.5):
            # abort -> reason dropped; re-queue -> reason back; two transfers of one user: reason stays until the last
            out.append({'tier': 'xfer', 'lat': 0.02, 'ops': [
                {'op': 'add', 'slot': 0, 'u': 0, 'mode': mode, 'gap': gap},
                {'op': 'add', 'slot': 1, 'u': 0, 'mode': 'paused', 'gap': 1.5},
                {'op': 'abort', 'slot': 0, 'gap': 1.5},
                {'op': 'abort', 'slot': 1, 'gap': 1.5},
                {'op': 'queue', 'slot': 1, 'gap': 1.5}]})
            # remove of an unfinished / of an already aborted transfer
            out.append({'tier': 'xfer', 'lat': 0.02, 'ops': [
                {'op': 'add', 'slot': 0, 'u': 0, 'mode': mode, 'gap': 1.5},
                {'op': 'remove', 'slot': 0, 'gap': gap}]})
            out.append({'tier': 'xfer', 'lat': 0.02, 'ops': [
                {'op': 'add', 'slot': 0, 'u': 0, 'mode': mode, 'gap': 1.5},
                {'op': 'abort', 'slot': 0, 'gap': gap},
                {'op': 'remove', 'slot': 0, 'gap': 1.5}]})
    return out


# ---------------------------------------------------------------------------
# enumerations

def _enumerated_case_cases():
    """u0 'Miles' and u1 'miles' have an attempt outstanding at the same moment and the server answers differently."""
    out = []
    behs = [([0], [1, 0]), ([1, 0], [0]), ([0], [2, 0]), ([2, 0], [0]), ([1], [2, 0])]
    glues = [None, {'w': 0, 'rev': False, 'extra': 0}, {'w': 0, 'rev': True, 'extra': 0},
             {'w': 2, 'rev': False, 'extra': 2}, {'w': 2, 'rev': True, 'extra': 1}]
    for b0, b1 in behs:
        for glue in glues:
            for order in ((0, 1), (1, 0), (0, 2, 1)):
                for it in (0, 1, 4):
                    for tail in (12.0, 31.0):
                        ops = [{'op': 't', 'u': u, 'f': 1 + u % 2, 'gap': ['it', it]} for u in order]
                        case = {'lat': 0.02, 'full': False, 'beh': [b0, b1, [0]], 'tail': tail, 'ops': ops}
                        if glue:
                            case['glue'] = glue
                        out.append(case)
    return out


def _enumerated_flag_cases():
    """Calls that carry the empty flag set (change nothing, send nothing) and composite flag sets."""
    out = []
    for beh in (0, 1):
        for f0 in (1, 4, 5):
            for off in (0, 1, 4, 9):
                for op in ('t', 'u'):
                    # an empty-set call on a user that is tracked (or retry pending) for f0
                    out.append({'lat': 0.02, 'full': False, 'beh': [[beh, 0], [0], [0]], 'tail': 31.0, 'ops': [
                        {'op': 't', 'u': 0, 'f': f0, 'gap': ['dt', 1.0] if off == 9 else ['it', off]},
                        {'op': op, 'u': 0, 'f': 0, 'gap': ['dt', 3.0]},
                        {'op': 'u', 'u': 0, 'f': f0, 'gap': ['it', off]},
                        {'op': op, 'u': 0, 'f': 0, 'gap': ['it', 0]}]})
    for op in ('t', 'u'):
        for full in (False, True):
            # an empty-set call on a user nobody tracks
            out.append({'lat': 0.02, 'full': full, 'beh': [[0], [0], [0]], 'tail': 12.0, 'ops': [
                {'op': op, 'u': 0, 'f': 0, 'gap': ['dt', 1.0]}, {'op': op, 'u': 0, 'f': 0, 'gap': ['it', 2]},
                {'op': 't', 'u': 1, 'f': 1, 'gap': ['it', 0]}]})
    # composite sets: union on track, difference on untrack
    for seq in ([('t', 5), ('u', 1), ('u', 4)], [('t', 7), ('u', 7)], [('t', 3), ('u', 5), ('u', 2)],
                [('t', 1), ('t', 6), ('u', 3), ('u', 4)], [('t', 4), ('u', 3), ('u', 7), ('t', 7), ('u', 6), ('u', 1)]):
        for gap in (['it', 0], ['it', 3], ['dt', 1.0]):
            out.append({'lat': 0.02, 'full': False, 'beh': [[0], [0], [0]], 'tail': 12.0,
                        'ops': [{'op': o, 'u': 0, 'f': f, 'gap': gap} for o, f in seq]})
    for f in (0, 5):
        out.append({'tier': 'xfer', 'lat': 0.02, 'ops': [
            {'op': 't', 'u': 0, 'f': 1, 'gap': 1.5}, {'op': 'u', 'u': 0, 'f': f & 4, 'gap': 1.5},
            {'op': 't', 'u': 1, 'f': f, 'gap': 1.5}, {'op': 'add', 'slot': 0, 'u': 1, 'mode': 'paused', 'gap': 1.5},
            {'op': 'u', 'u': 1, 'f': 0, 'gap': 1.5}, {'op': 'u', 'u': 1, 'f': 5, 'gap': 1.5},
            {'op': 'abort', 'slot': 0, 'gap': 1.5}]})
    return out


def _enumerated_friend_cases():
    """settings.users.friends changed in place while an application FriendListChangedEvent listener is suspended."""
    out = []
    seconds = [
        [{'op': 'fadd', 'u': 1}], [{'op': 'fdel', 'u': 0}], [{'op': 'fset', 'mask': 6}],
        [{'op': 'fdel', 'u': 0}, {'op': 'fadd', 'u': 0}], [{'op': 'fadd', 'u': 1}, {'op': 'fdel', 'u': 1}],
    ]
    for ld in (0.5, 2.0):
        for lprio in (0, 1):
            for friends0 in (0, 4):
                for second in seconds:
                    for sync, gap in ((True, 3.0), (False, 1.5), (False, 0.3)):
                        ops = [{'op': 'fadd', 'u': 0, 'gap': gap, 'sync': sync}]
                        for k, o in enumerate(second):
                            ops.append(dict(o, gap=7.0 if k == len(second) - 1 else 0.06, sync=False))
                        ops.append({'op': 'fdel', 'u': 0, 'gap': 7.0, 'sync': False})
                        out.append({'tier': 'xfer', 'lat': 0.02, 'ld': ld, 'lprio': lprio, 'friends0': friends0, 'ops': ops})
    for k in (0, 1, 2):
        # friends across a disconnect: re-announced by the session initialisation, changes made while disconnected
        out.append({'tier': 'xfer', 'lat': 0.02, 'ld': 0.5, 'lprio': 0, 'friends0': 3, 'ops': [
            {'op': 'add', 'slot': 0, 'u': 0, 'mode': 'paused', 'gap': 1.5},
            {'op': 'x', 'k': k, 'gap': 0.3},
            {'op': 'fdel', 'u': 1, 'gap': 0.3, 'sync': False},
            {'op': 'fadd', 'u': 2, 'gap': 0.3, 'sync': False},
            {'op': 'login', 'gap': 0.0},
            {'op': 'fdel', 'u': 0, 'gap': 7.0, 'sync': True},
            {'op': 'abort', 'slot': 0, 'gap': 1.5}]})
    return out


def _enumerated_cases():
    out = []
    # (1) iteration offset between the untrack that empties the set and the next track
    for lat in (0.001, 0.02):
        for beh in (0, 1, 2):
            for off in range(0, 13):
                for f2 in (1, 4):
                    out.append({'lat': lat, 'full': False, 'beh': [[beh, 0], [0]], 'tail': 31.0, 'ops': [
                        {'op': 't', 'u': 0, 'f': 1, 'gap': ['dt', 1.0 if beh != 2 else 15.0]},
                        {'op': 'u', 'u': 0, 'f': 1, 'gap': ['it', off]},
                        {'op': 't', 'u': 0, 'f': f2, 'gap': ['it', 0]}]})
    # (2) same, the untrack lands while the first attempt is still unanswered (worker exits after the wait)
    for beh in (0, 2):
        for off in range(0, 13):
            out.append({'lat': 0.02, 'full': False, 'beh': [[beh, 0], [0]], 'tail': 31.0, 'ops': [
                {'op': 't', 'u': 0, 'f': 1, 'gap': ['it', 2]},
                {'op': 'u', 'u': 0, 'f': 1, 'gap': ['reply' if beh == 0 else 'retry', off]},
                {'op': 't', 'u': 0, 'f': 2, 'gap': ['it', 0]}]})
    # (3) two users, second user's calls interleaved at the offset; full client
    for off in range(0, 13):
        out.append({'lat': 0.02, 'full': True, 'beh': [[0], [0]], 'tail': 12.0, 'ops': [
            {'op': 't', 'u': 0, 'f': 2, 'gap': ['it', 0]},
            {'op': 't', 'u': 1, 'f': 2, 'gap': ['dt', 0.5]},
            {'op': 'u', 'u': 0, 'f': 2, 'gap': ['it', off]},
            {'op': 't', 'u': 0, 'f': 2, 'gap': ['it', 0]},
            {'op': 'u', 'u': 1, 'f': 2, 'gap': ['it', 0]}]})
    # (4) calls around the retry instant
    for beh in (1, 2):
        for k in range(0, 5):
            for j in range(0, 4):
                out.append({'lat': 0.02, 'full': False, 'beh': [[beh, 0, 0], [0]], 'tail': 45.0, 'ops': [
                    {'op': 't', 'u': 0, 'f': 1, 'gap': ['retry', k]},
                    {'op': 'u', 'u': 0, 'f': 1, 'gap': ['it', j]},
                    {'op': 't', 'u': 0, 'f': 4, 'gap': ['it', 0]}]})
    # (5) disconnect at an iteration offset after a call, with and without a pending retry
    for kind in (0, 1, 2):
        for beh in (0, 2):
            for off in range(0, 9):
                out.append({'lat': 0.02, 'full': False, 'beh': [[beh], [0]], 'tail': 31.0, 'ops': [
                    {'op': 't', 'u': 0, 'f': 1, 'gap': ['dt', 12.0]},
                    {'op': 't', 'u': 1, 'f': 4, 'gap': ['it', off]},
                    {'op': 'x', 'u': 0, 'k': kind, 'gap': ['it', off]},
                    {'op': 'u', 'u': 1, 'f': 4, 'gap': ['dt', 1.0]},
                    {'op': 't', 'u': 0, 'f': 2, 'gap': ['it', 0]}]})
    return out


def _enumerated_glue_cases():
    """2..3 users get a reason at (nearly) the same time; the server answers all of them in one TCP segment."""
    out = []
    for n_users in (2, 3):
        for rev in (False, True):
            for extra in (0, 1, 2, 3):
                for w in (0, 2):
                    for it in (0, 1, 4):
                        for beh in ([[0], [0], [0]], [[0], [1, 0], [0]]):
                            ops = [{'op': 't', 'u': u, 'f': 1 + u % 2, 'gap': ['it', it]} for u in range(n_users)]
                            out.append({'lat': 0.02, 'full': False, 'beh': beh, 'tail': 31.0, 'ops': ops,
                                        'glue': {'w': w, 'rev': rev, 'extra': extra}})
    # a second reason / an untrack queued behind the attempts in flight, and the full client
    for rev in (False, True):
        for full in (False, True):
            out.append({'lat': 0.001, 'full': full, 'beh': [[0], [0], [0]], 'tail': 31.0,
                        'glue': {'w': 1, 'rev': rev, 'extra': 2}, 'ops': [
                            {'op': 't', 'u': 0, 'f': 1, 'gap': ['it', 0]},
                            {'op': 't', 'u': 1, 'f': 2, 'gap': ['it', 0]},
                            {'op': 't', 'u': 2, 'f': 4, 'gap': ['it', 1]},
                            {'op': 't', 'u': 1, 'f': 4, 'gap': ['it', 0]},
                            {'op': 'u', 'u': 0, 'f': 1, 'gap': ['dt', 3.0]},
                            {'op': 'u', 'u': 1, 'f': 2, 'gap': ['it', 0]}]})
    return out


def run_shard(ctx):
    ctx.enumerate(_enumerated_cases() + _enumerated_xfer_cases() + _enumerated_glue_cases() +
                  _enumerated_friend_cases() + _enumerated_case_cases() + _enumerated_flag_cases())
    n = 700 if ctx.tier == 'quick' else 20000
    # the transfer-manager tier first: it is the cheaper one and must not be starved by the wall-clock budget
    ctx.explore(xfer_strategy(), 150 if ctx.tier == 'quick' else 4000, salt=1)
    ctx.explore(case_strategy(), n)


MANIFEST_ENTRY = {
    'technique': 'property-based testing (Hypothesis) plus enumerated iteration offsets: generated track/untrack call '
                 'histories, call timings at loop-iteration and virtual-time granularity, per-attempt server behaviours '
                 'and disconnects against the real UserManager/Network on a virtual-time loop with in-memory TCP; '
                 'flag-set reference model as oracle',
    'level_text': 'Generated-schedule exploration: every case folds the calls into a per-user flag-set model and compares '
                  'the AddUser/RemoveUser frames at the simulated server (order, retries at the documented delays), the '
                  'final flags and tracking state, and task survival after a server close. Iteration offsets around '
                  'worker exits, retry instants and disconnects are enumerated exhaustively in a small range; the rest '
                  'is sampled.',
    'level_note': 'A second generated tier drives a full client with real TransferManager-owned TRANSFER reasons, '
                  'user-API reasons, server disconnects and re-logins and compares flags, state and the current '
                  "session's AddUser/RemoveUser frames with the reason-set model at every quiescent point. "
                  'Trusted base: virtual loop, in-memory TCP (ordered, lossless, latency >= 0.5 ms), simulated server, '
                  'the model in checks/c15.py. Retry delays (10 s / 600 s, 10 s answer timeout) are pinned in the check. '
                  'Calls issued while the close is being processed are ties (either dropped or kept).',
}

# one deterministic minimal case per genuine defect found on the pinned tree (regressions once repaired)
KNOWN_REPLAYS = {
    # untrack empties the set, the worker returns; a track_user issued in the iteration between the worker's return
    # and its done callback is queued on the finished worker: no AddUser, flags empty
    'C15/track-call-lost:worker-exit-window': {
        'lat': 0.02, 'full': False, 'beh': [[0], [0]], 'tail': 12.0, 'ops': [
            {'op': 't', 'u': 0, 'f': 1, 'gap': ['dt', 1.0]},
            {'op': 'u', 'u': 0, 'f': 1, 'gap': ['it', 4]},
            {'op': 't', 'u': 0, 'f': 4, 'gap': ['it', 0]}]},
    # the worker's own AddUser write fails: the sending task closes the connection, the tracking manager's CLOSED
    # listener cancels and awaits the worker that awaits the sending task: RecursionError, close never completes
    'C15/server-close-never-completes:close-handler-waits-for-itself(RecursionError)': {
        'lat': 0.02, 'full': False, 'beh': [[0], [0]], 'tail': 12.0, 'ops': [
            {'op': 'x', 'u': 0, 'k': 2, 'gap': ['it', 0]},
            {'op': 't', 'u': 0, 'f': 1, 'gap': ['it', 0]}]},
    # the worker is cancelled (server reset) while it awaits cancel_task(retry_task): utils.cancel_task swallows the
    # worker's own CancelledError, the worker lives on and the CLOSED handler waits for it forever
    'C15/server-close-never-completes:worker-survives-cancel': {
        'lat': 0.02, 'full': False, 'beh': [[2], [0]], 'tail': 12.0, 'ops': [
            {'op': 't', 'u': 0, 'f': 1, 'gap': ['it', 0]},
            {'op': 'u', 'u': 0, 'f': 1, 'gap': ['dt', 9.98]},
            {'op': 'x', 'u': 1, 'k': 1, 'gap': ['it', 0]},
            {'op': 't', 'u': 0, 'f': 3, 'gap': ['it', 0]}]},
    # untrack + track issued in the very iteration in which the retry timer fires: the already queued retry request
    # is executed after the fresh AddUser (a second AddUser; with failing attempts two retry chains from then on)
    # TransferManager.remove() takes the transfer out of the list before a management cycle saw it finalized: the
    # cycle only untracks users that still have (finished) transfers, so the TRANSFER reason is never dropped
    'C15/xfer:transfer-reason-kept:after-remove': {
        'tier': 'xfer', 'lat': 0.02, 'ops': [
            {'op': 'add', 'slot': 0, 'u': 0, 'mode': 'paused', 'gap': 1.5},
            {'op': 'remove', 'slot': 0, 'gap': 1.5}]},
    'C15/stale-retry-sent-after-untrack-and-retrack': {
        'lat': 0.02, 'full': False, 'beh': [[2, 0, 0], [0]], 'tail': 12.0, 'ops': [
            {'op': 't', 'u': 0, 'f': 1, 'gap': ['retry', 0]},
            {'op': 'u', 'u': 0, 'f': 1, 'gap': ['it', 0]},
            {'op': 't', 'u': 0, 'f': 4, 'gap': ['it', 0]}]},
}
