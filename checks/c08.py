"""C08 — files are only offered and uploaded to users entitled to them (DESIGN §3 C08)."""
from __future__ import annotations

import asyncio
import gc
import os
import shutil
import tempfile
import types

from hypothesis import strategies as st

from vfw import simworld, xfer
from vfw.runner import CaseResult

PROPERTY = 'C08'
LEVEL = 'exploration'
RULE = (
    "Case = a real logged-in SoulSeekClient on the virtual loop with 1..3 shared directories out of a fixed tree of 8 "
    "candidate directories (nested ones and siblings whose path is a string prefix of another's, e.g. A and A-x, "
    "A/in and A/in2; 11 files, mixed-case names) with generated share modes "
    "(everyone/friends/users + user lists), a friends list and a block map with arbitrary BlockingFlag sets over 3 "
    "scripted remote users (each with a generated downloader behaviour: completes / never closes / never answers / "
    "refuses; optional 1 KiB/s upload limit, 1..3 upload slots), server-excluded search phrases in arbitrary letter "
    "case, and a history of <=12 operations: search from user u (server FileSearch, ServerSearchRequest, "
    "DistributedSearchRequest and the wrapped DistributedServerSearchRequest over a D connection: all four handlers "
    "that end in _query_shares_and_reply), PeerSharesRequest, PeerDirectoryContentsRequest, PeerTransferQueue "
    "/ PeerTransferRequest(direction upload) for a path naming a file through any enclosing directory's alias (exact, "
    "upper/lower case, doubled separator, forward slashes, trailing separator, unknown file, unknown alias), friend "
    "add/remove, block/unblock with flags, mode/users update, add/remove directory (nested too; not scanned / scanned "
    "with scan_directory_files / full scan()), rescan, new excluded phrase list, user abort/pause/queue of an upload, "
    "advance (0.1..2.5 s; >=2 s = settle across the 1 s user-management tick and the transfer management cycle). "
    "Configuration changes are followed by a generated gap of 1..500 ms (bursts: two changes aimed at two different "
    "existing uploads land close together without a settle) and every executor job (file open/read/close, exists, "
    "getsize, scans) takes a generated virtual time of 0 / 50 / 150 / 300 ms, so that aborting an UPLOADING transfer "
    "is slow and further changes arrive while a management cycle is suspended inside its reconciliation. Friend / "
    "block lists are changed in place or by assigning a new set / dict; the same user repeats a shares / search / "
    "directory request directly before and after a friend or block change for that user (nothing in between); up to "
    "3 application listeners (sync raising / async raising / harmless; priority in front of or behind the "
    "library's own listeners) are registered on SharedDirectoryChangeEvent, FriendListChangedEvent, "
    "BlockListChangedEvent, ScanCompleteEvent: the library has to reconcile whatever they do. 0..2 paused downloads "
    "sit at the front of the transfer list and the local user may remove a transfer (by list position) 1..250 ms "
    "after a change that revokes permissions, i.e. while the reconciliation of several uploads is in progress. "
    "Directories are configured and added in every order (inner before outer included); a reload operation replaces "
    "settings.shares.directories by a shorter list (1..3 directories dropped at once, adjacent ones included) and "
    "applies it with load_from_settings() + scan() as start() does. "
    "Oracle = reference entitlement computed from the harness' own model of the configuration: visible(u,f) iff the "
    "innermost shared directory containing f admits u; may_upload(u,f) iff visible and u not blocked for UPLOADS. At "
    "the scripted peers: every PeerSearchReply.results / PeerSharesReply.directories / "
    "PeerDirectoryContentsReply.directories file is visible to the addressee, locked lists hold only locked files, "
    "no reply goes to a user blocked for SEARCHES (searches) / SHARES (shares and directory requests), no search "
    "result path (relative to its share) contains an excluded phrase case-insensitively; a queue/transfer request "
    "creates (or restarts a finished/aborted) upload only if may_upload holds at that moment (Transfer states plus "
    "PeerTransferRequests and bytes seen by the peer). After every settle: each unfinished upload with not may_upload "
    "is ABORTED with reason Blocked (wins) / File not shared and receives no more bytes afterwards, and no upload "
    "completed at the peer later than 1.6 s after it lost its permission; each upload ABORTED for such a reason "
    "with may_upload (and a path the library still indexes) is no longer ABORTED; an upload aborted by the user "
    "stays ABORTED with reason Requested; no PeerTransferRequest offer for an upload reaches the peer after the end of "
    "the first manage_shares_changed() run that started after the upload lost its permission. Violations on files whose index item was moved between nested shared "
    "directories without being re-created carry the kind prefix C08/moved-item-keeps-old-directory. Non-trivial = "
    "a request touches a file locked for / a user blocked for it, or an excluded phrase applies, or a configuration "
    "change flips may_upload of an existing unfinished upload; distinct = distinct case document."
)
ASSUMPTIONS = [
    "path lookups are exact-string: case variants, doubled/forward separators and unknown aliases name no shared "
    "file (refusing them is the safe direction and never a violation)",
    "a remote path names the file on disk it resolves to through the alias of any (formerly) shared directory; "
    "entitlement is decided by the innermost *currently* shared directory containing that file",
    "effects of friend/block changes on existing uploads are demanded only after >= 2 s of virtual time (1 s "
    "user-management tick + transfer management cycle); request-time checks (is_blocked, is_directory_locked) read "
    "the live settings and are demanded immediately",
    "at most one friend/block change per user between two user-management ticks (the library detects changes by "
    "comparing snapshots once per second; the harness waits for the tick before changing the same user again)",
    "re-queueing is demanded only for paths the library itself still resolves (find_shared_item_cache without "
    "username) and only if an event-emitting change (update/add/remove directory, full scan) or a tick followed "
    "the last event-less index update (scan_directory_files emits no event)",
    "the local user's queue() on an upload is only issued for PAUSED / ABORTED uploads (the states its documentation "
    "lists) and only while the upload is permitted (overriding an automatic abort by hand is outside the statement)",
    "files are never deleted or modified on disk during a case; exactness of the index itself is C07's subject "
    "(results naming files outside every shared directory are ignored here)",
    "every network delivery has strictly positive latency (1 ms); each request is followed by >= 50 ms (+ 3 executor "
    "delays) before the next operation",
    "with a slow executor the reconciliation horizon grows by 4 executor delays (a cycle that is busy aborting delays "
    "the next one); an upload that starts or completes between a change and the management cycle that reconciles it "
    "(e.g. offered by the cycle that was already running when the change arrived) is tolerated and only labelled "
    "'completed-inside-reconciliation-window'",
]
BUDGET_S = {'quick': 150, 'thorough': 1500}

# ---------------------------------------------------------------------------
# fixed universe

USERS = ['ua', 'ub', 'uc']
# the last two are *siblings* whose path has another candidate's path as a string prefix (A-x next to A, A/in2 next
# to A/in): containment must be decided on path components, not on strings
CAND = [('A',), ('A', 'in'), ('A', 'in', 'deep'), ('B',), ('B', 'sub'), ('C',), ('A-x',), ('A', 'in2')]
FILES = [
    (('A',), 'Foo Bar.txt', 1500),
    (('A',), 'Loud SONG.txt', 300),
    (('A', 'in'), 'bar Baz.txt', 3000),
    (('A', 'in'), 'Inner Tune.txt', 700),
    (('A', 'in', 'deep'), 'Deep foo.txt', 5000),
    (('B',), 'Other bar.txt', 2500),
    (('B',), 'quiet Song.txt', 400),
    (('B', 'sub'), 'Sub tune.txt', 4000),
    (('C',), 'foo.txt', 900),
    (('A-x',), 'Private bar.txt', 1200),
    (('A', 'in2'), 'Second tune.txt', 800),
]
FILE_BY_TUPLE = {d + (n,): i for i, (d, n, _) in enumerate(FILES)}
# candidate directories enclosing each file, shallow -> deep
ENCL = [[ci for ci, c in enumerate(CAND) if d[:len(c)] == c] for d, _, _ in FILES]
MODES = ['everyone', 'friends', 'users']
SEARCHES, SHARES, UPLOADS = 4, 8, 32
QUERIES = ['txt', 'txt', 'foo', 'bar', 'song', 'tune', 'deep foo', 'BAR txt', 'txt -baz', 'inner', '*oo txt']
PHRASES = ['bar', 'BAR', 'Foo', 'SONG', 'tune', 'TUNE', 'in\\', 'IN\\bar', 'deep', 'oo b', 'OO B', 'x', 'Txt', 'quiet s']
PHRASE_ALPHABET = set('abcdefghijklmnopqrstuvwxyzABCDEFGHIJKLMNOPQRSTUVWXYZ0123456789 .\\')
BEHAVIOURS = ['fast', 'hold', 'silent', 'refuse']
VARIANTS = ['exact', 'exact', 'exact', 'exact', 'exact', 'upper', 'lower', 'dblsep', 'fwd', 'trail', 'nofile',
            'noalias']
# one carrier per SearchManager handler that ends in _query_shares_and_reply (FileSearch.Response,
# ServerSearchRequest.Response, DistributedSearchRequest.Request, DistributedServerSearchRequest.Request)
CARRIERS = ['file-search', 'server-search', 'distributed-search', 'distributed-server-search']
ADVANCES = [0.1, 0.6, 1.2, 2.5]
SETTLE = 2.0
# virtual duration of every executor job (file open/read/close, exists, getsize, scans) after the initial scan: a slow
# file system makes aborting an UPLOADING transfer take time (the cancelled task closes its file handle), so that a
# management cycle is suspended inside manage_shares_changed() while further changes arrive
XDELAYS = [0.0, 0.0, 0.05, 0.15, 0.3]
GAPS = [1, 5, 20, 50, 100, 150, 200, 300, 500]
# application listeners registered on the client's event bus: (event, behaviour, priority); library listeners have
# priority 100 and are registered first, a lower priority runs in front of them
LISTENER_EVENTS = ['SharedDirectoryChangeEvent', 'FriendListChangedEvent', 'BlockListChangedEvent', 'ScanCompleteEvent']
LISTENER_KINDS = ['sync-raises', 'async-raises', 'sync-ok']
LISTENER_PRIOS = [0, 50, 99, 100, 150]      # ms between a configuration change and the next operation
STALE = 'moved-item-keeps-old-directory'
_TMP_PARENT = '/dev/shm' if os.path.isdir('/dev/shm') and os.access('/dev/shm', os.W_OK) else None


class Model:
    """Reference configuration: who is entitled to what."""

    def __init__(self, dirs, friends, blocked):
        self.shared = {d: [mode, set(users)] for d, mode, users in dirs}
        self.friends = set(friends)
        self.blocked = dict(blocked)

    def copy(self):
        m = Model([], self.friends, self.blocked)
        m.shared = {d: [v[0], set(v[1])] for d, v in self.shared.items()}
        return m

    def innermost(self, f):
        best = None
        for d in ENCL[f]:
            if d in self.shared:
                best = d
        return best

    def admits(self, u, d):
        mode, users = self.shared[d]
        return mode == 0 or (mode == 1 and u in self.friends) or (mode == 2 and u in users)

    def visible(self, u, f):
        d = self.innermost(f)
        return d is not None and self.admits(u, d)

    def is_blocked(self, u, flag):
        return bool(self.blocked.get(u, 0) & flag)

    def may_upload(self, u, f):
        return f is not None and self.visible(u, f) and not self.is_blocked(u, UPLOADS)

    def why_not(self, u, f):
        if self.is_blocked(u, UPLOADS):
            return 'blocked'
        if f is None:
            return 'unknown-path'
        if self.innermost(f) is None:
            return 'not-shared'
        return 'locked'

    def has_prefix_sibling(self, d):
        """Another shared directory whose path is a string prefix of d's path without containing d."""
        p = '/'.join(CAND[d])
        return any(o != d and p.startswith('/'.join(CAND[o])) and CAND[d][:len(CAND[o])] != CAND[o]
                   for o in self.shared)

    def has_shared_ancestor(self, d):
        return any(o != d and CAND[d][:len(CAND[o])] == CAND[o] for o in self.shared)


# ---------------------------------------------------------------------------
# strategy (keeps its own Model so that requests and configuration changes can be aimed at existing uploads)

_FLAGS = st.one_of(st.sampled_from([4, 8, 32, 32, 63, 44, 12, 36, 40, 3, 16, 31]), st.integers(0, 63))
_USERLIST = st.lists(st.integers(0, 2), unique=True, max_size=3)
_DIRSETS = [[1, 0, 2], [2, 1, 0], [1, 2, 0], [2, 0, 1], [1, 0], [1, 0, 2], [4, 3], [7, 0, 1], [0], [3], [0, 1], [0, 1, 2], [1], [0, 3], [3, 4], [0, 2], [1, 2], [0, 1, 3], [5], [0, 5], [2, 4, 5],
            [0, 4], [0, 1, 4], [0, 6], [0, 6], [0, 1, 6], [1, 7], [0, 1, 7], [1, 7, 6], [6], [0, 7], [3, 6, 0]]


@st.composite
def _path_op(draw, m, kind, u=None, want_visible=None):
    u = draw(st.integers(0, 2)) if u is None else u
    files = list(range(len(FILES)))
    if want_visible is not None:
        pool = [f for f in files if m.visible(u, f) == want_visible and (want_visible or m.innermost(f) is not None)]
        files = pool or files
    f = draw(st.sampled_from(files))
    inner = m.innermost(f)
    if inner is not None and draw(st.integers(0, 9)) < 7:
        via = ENCL[f].index(inner)
    else:
        via = draw(st.integers(0, len(ENCL[f]) - 1))
    var = draw(st.integers(0, len(VARIANTS) - 1)) if draw(st.integers(0, 3)) == 0 else 0
    return {'t': kind, 'u': u, 'f': f, 'via': via, 'var': var}


def _config_candidates(m, u, f):
    """Configuration operations that could matter for (u, f): block / friend / mode / add / remove."""
    out = []
    cur = m.blocked.get(u, 0)
    if cur & UPLOADS:
        out += [{'t': 'block', 'u': u, 'flags': 0, 'rm': True}, {'t': 'block', 'u': u, 'flags': 0, 'rm': False},
                {'t': 'block', 'u': u, 'flags': cur & ~UPLOADS, 'rm': False}]
    else:
        out += [{'t': 'block', 'u': u, 'flags': 32, 'rm': False}, {'t': 'block', 'u': u, 'flags': 63, 'rm': False},
                {'t': 'block', 'u': u, 'flags': cur | UPLOADS, 'rm': False}]
    out.append({'t': 'friend', 'u': u, 'add': u not in m.friends})
    order = sorted(m.shared)
    inner = m.innermost(f)
    if inner is not None:
        pos = order.index(inner)
        others = [x for x in range(3) if x != u]
        for mode, users in ((0, None), (1, None), (2, [u]), (2, others), (2, []), (2, None)):
            out.append({'t': 'setmode', 'd': pos, 'mode': mode, 'users': users})
        for scan in (0, 0, 2):
            out.append({'t': 'rmdir', 'd': pos, 'scan': scan})
    for d in ENCL[f]:
        if d not in m.shared:
            for mode, users in ((0, []), (1, []), (2, [u]), (2, [x for x in range(3) if x != u])):
                for scan in (0, 1, 2):
                    out.append({'t': 'adddir', 'd': d, 'mode': mode, 'users': users, 'scan': scan})
    return out


@st.composite
def _flip_op(draw, m, targets):
    """A configuration change that flips may_upload of an upload that probably exists."""
    u, f, _ = draw(st.sampled_from(targets))
    cands = []
    was = m.may_upload(u, f)
    for op in _config_candidates(m, u, f):
        m2 = m.copy()
        _apply_to_model(m2, op)
        if m2.may_upload(u, f) != was:
            cands.append(op)
    if not cands:
        return None
    return dict(draw(st.sampled_from(cands)))


@st.composite
def _op(draw, m, targets):
    kinds = (['search'] * 6 + ['shares'] * 2 + ['dirreq'] * 2 + ['queue'] * 5 + ['treq'] * 3 + ['friend'] * 2 +
             ['block'] * 3 + ['setmode'] * 2 + ['adddir'] * 3 + ['rmdir'] * 2 + ['rescan'] + ['reload'] * 2 + ['phrases'] +
             ['user'] * 4 + ['adv'] * 8 + (['flip'] * 12 + ['again'] * 5 if targets else []))
    kind = draw(st.sampled_from(kinds))
    if kind == 'again':
        # the same user asks again for a file it asked for before (finished, aborted or still running upload)
        u, f, via = draw(st.sampled_from(targets))
        return {'t': draw(st.sampled_from(['queue', 'queue', 'treq'])), 'u': u, 'f': f, 'via': via, 'var': 0}
    if kind == 'flip':
        op = draw(_flip_op(m, targets))
        if op is not None:
            return op
        kind = 'block'
    if kind == 'search':
        return {'t': 'search', 'u': draw(st.integers(0, 2)), 'c': draw(st.integers(0, len(CARRIERS) - 1)),
                'q': draw(st.sampled_from([0, 0, 0] + list(range(len(QUERIES)))))}
    if kind == 'shares':
        return {'t': 'shares', 'u': draw(st.integers(0, 2))}
    if kind == 'dirreq':
        d = draw(st.integers(0, len(CAND) - 1))
        return {'t': 'dirreq', 'u': draw(st.integers(0, 2)), 'd': d, 'via': draw(st.integers(0, 2))}
    if kind in ('queue', 'treq'):
        want = draw(st.sampled_from([None, True, True, False]))
        return draw(_path_op(m, kind, want_visible=want))
    if kind == 'friend':
        u = draw(st.integers(0, 2))
        return {'t': 'friend', 'u': u, 'add': (u not in m.friends) if draw(st.integers(0, 4)) else (u in m.friends)}
    if kind == 'block':
        u = draw(st.integers(0, 2))
        if m.blocked.get(u, 0) and draw(st.integers(0, 2)):
            return {'t': 'block', 'u': u, 'flags': 0, 'rm': draw(st.booleans())}
        return {'t': 'block', 'u': u, 'flags': draw(_FLAGS), 'rm': False}
    if kind == 'setmode':
        return {'t': 'setmode', 'd': draw(st.integers(0, 2)), 'mode': draw(st.integers(0, 2)),
                'users': draw(st.none() | _USERLIST)}
    if kind == 'adddir':
        free = [d for d in range(len(CAND)) if d not in m.shared]
        nested = [d for d in free if m.has_shared_ancestor(d)]
        pool = nested * 3 + free + [d for d in free if d >= 6] * 2
        d = draw(st.sampled_from(pool)) if pool else draw(st.integers(0, len(CAND) - 1))
        return {'t': 'adddir', 'd': d, 'mode': draw(st.integers(0, 2)),
                'users': draw(_USERLIST), 'scan': draw(st.sampled_from([0, 0, 1, 2, 2]))}
    if kind == 'rmdir':
        order = sorted(m.shared)
        nested = [i for i, d in enumerate(order) if m.has_shared_ancestor(d)]
        pool = nested * 3 + list(range(len(order))) + [i for i, d in enumerate(order) if m.has_prefix_sibling(d)] * 4
        pos = draw(st.sampled_from(pool)) if pool else 0
        return {'t': 'rmdir', 'd': pos, 'scan': draw(st.sampled_from([0, 0, 2]))}
    if kind == 'rescan':
        return {'t': 'rescan', 'd': draw(st.integers(0, 3))}
    if kind == 'reload':
        return {'t': 'reload', 'drop': draw(st.sampled_from([1, 2, 3, 3, 3, 6, 6, 7, 4, 5, 12]))}
    if kind == 'phrases':
        return {'t': 'phrases', 'p': draw(st.lists(st.sampled_from(PHRASES), max_size=2))}
    if kind == 'user':
        return {'t': 'user', 'x': draw(st.integers(0, 4)), 'act': draw(st.sampled_from(
            ['abort', 'abort', 'abort', 'pause', 'pause', 'queue', 'queue', 'remove']))}
    return {'t': 'adv', 'dt': draw(st.sampled_from([0, 1, 2, 3, 3, 3, 3]))}


@st.composite
def _burst(draw, m, targets):
    """Two configuration changes that land close together (no settle in between), each flipping the permission
    of a different upload that probably exists: the second arrives while the first is being reconciled."""
    t1 = draw(st.sampled_from(targets))
    rest = [t for t in targets if t[:2] != t1[:2]] or targets
    t2 = draw(st.sampled_from(rest))
    a = draw(_flip_op(m, [t1]))
    if a is None:
        return None
    a['gap'] = draw(st.sampled_from(GAPS))
    m2 = m.copy()
    _apply_to_model(m2, a)
    b = draw(_flip_op(m2, [t2]))
    if b is None:
        return None
    b['gap'] = draw(st.sampled_from(GAPS))
    return [a, b]


@st.composite
def _rebrowse(draw, m):
    """The same user asks, a friend/block change for that user lands (nothing else in between), the user asks
    again: the second answer must reflect the change."""
    u = draw(st.integers(0, 2))
    what = draw(st.sampled_from(['shares', 'shares', 'shares', 'shares', 'search', 'dirreq']))

    def req():
        if what == 'shares':
            return {'t': 'shares', 'u': u}
        if what == 'search':
            return {'t': 'search', 'u': u, 'c': draw(st.integers(0, len(CARRIERS) - 1)), 'q': 0}
        d = draw(st.sampled_from(sorted(m.shared))) if m.shared else 0
        # named through its own alias (the deepest enclosing candidate is the directory itself)
        return {'t': 'dirreq', 'u': u, 'd': d, 'via': sum(1 for cd in CAND if CAND[d][:len(cd)] == cd) - 1}
    first = req()
    if draw(st.integers(0, 9)) < 6:
        change = {'t': 'friend', 'u': u, 'add': u not in m.friends, 'assign': draw(st.booleans())}
    else:
        flag = SHARES if what != 'search' else SEARCHES
        cur = m.blocked.get(u, 0)
        change = {'t': 'block', 'u': u, 'flags': (cur & ~flag) if cur & flag else (cur | flag),
                  'rm': draw(st.booleans()), 'assign': draw(st.booleans())}
    change['gap'] = draw(st.sampled_from([1, 5, 20, 50, 300]))
    return [first, change, req()]


def _apply_to_model(m, op):
    """Generation-time bookkeeping (approximate: index effects are ignored)."""
    t = op['t']
    if t == 'friend':
        (m.friends.add if op['add'] else m.friends.discard)(op['u'])
    elif t == 'block':
        if op['flags'] == 0:
            m.blocked.pop(op['u'], None)
        else:
            m.blocked[op['u']] = op['flags']
    elif t == 'setmode' and m.shared:
        d = sorted(m.shared)[op['d'] % len(m.shared)]
        m.shared[d][0] = op['mode']
        if op['users'] is not None:
            m.shared[d][1] = set(op['users'])
    elif t == 'adddir' and op['d'] not in m.shared:
        m.shared[op['d']] = [op['mode'], set(op['users'])]
    elif t == 'rmdir' and m.shared:
        del m.shared[sorted(m.shared)[op['d'] % len(m.shared)]]
    elif t == 'reload':
        for i, d in enumerate(sorted(m.shared)):       # approximation: the library keeps insertion order
            if (op['drop'] >> (i % 6)) & 1:
                del m.shared[d]


@st.composite
def case_strategy(draw, avoid=False):
    cand = draw(st.sampled_from(_DIRSETS) | st.lists(st.integers(0, len(CAND) - 1), min_size=1, max_size=3, unique=True))
    dirs = [[d, draw(st.sampled_from([0, 0, 1, 1, 2, 2])), draw(_USERLIST)] for d in cand]
    friends = draw(_USERLIST)
    blocked = draw(st.lists(st.tuples(st.integers(0, 2), _FLAGS), max_size=2, unique_by=lambda t: t[0]))
    m = Model([(d, mo, us) for d, mo, us in dirs], friends, dict(blocked))
    ops = []
    targets = []         # (user, file) of uploads that probably exist
    n = draw(st.integers(2, 12))
    forced = {}
    if draw(st.integers(0, 11)) == 0:
        # scenario: one user has a running (slow file system, rate limited: long UPLOADING) and a waiting upload out
        # of the same directory, old entries sit in front of them in the transfer list; one change revokes both and
        # while the running one is being torn down the local user removes an entry near the front
        u = draw(st.integers(0, 2))
        pairs = [(f1, f2) for f1 in range(len(FILES)) for f2 in range(len(FILES))
                 if f1 != f2 and FILES[f1][2] >= 2500 and m.may_upload(u, f1) and m.may_upload(u, f2)
                 and m.innermost(f1) == m.innermost(f2)]
        if pairs:
            f1, f2 = draw(st.sampled_from(pairs))
            via = [ENCL[f].index(m.innermost(f)) for f in (f1, f2)]
            xd = draw(st.integers(2, len(XDELAYS) - 1))
            revoke = []
            for op in _config_candidates(m, u, f1):
                m2 = m.copy()
                _apply_to_model(m2, op)
                if not m2.may_upload(u, f1) and not m2.may_upload(u, f2):
                    revoke += [op] * (4 if op['t'] in ('setmode', 'rmdir', 'adddir') else 1)
            change = dict(draw(st.sampled_from(revoke or [{'t': 'block', 'u': u, 'flags': 63, 'rm': False}])))
            change['gap'] = draw(st.sampled_from([g for g in GAPS if g < XDELAYS[xd] * 1000] + [GAPS[-1]]))
            ops += [{'t': 'queue', 'u': u, 'f': f1, 'via': via[0], 'var': 0},
                    {'t': 'queue', 'u': u, 'f': f2, 'via': via[1], 'var': 0}]
            if draw(st.booleans()):
                ops.append({'t': 'adv', 'dt': draw(st.sampled_from([0, 1]))})
            ops += [change, {'t': 'user', 'x': draw(st.sampled_from([0, 0, 0, 1])), 'act': 'remove'},
                    {'t': 'adv', 'dt': 3}]
            _apply_to_model(m, change)
            behav = [draw(st.sampled_from([0, 0, 1, 2, 3])) for _ in USERS]
            behav[u] = 0
            forced = {'xdelay': xd, 'limit': 1, 'front': draw(st.sampled_from([1, 1, 2])), 'behav': behav}
    elif draw(st.integers(0, 9)) < 7:
        # scenario prefix: a few uploads that exist before the configuration starts to move
        same_user = draw(st.sampled_from([None, None, 0, 1, 2]))     # several uploads of one user: one runs, others wait
        for _ in range(draw(st.integers(1, 3))):
            ops.append(draw(_path_op(m, draw(st.sampled_from(['queue', 'queue', 'treq'])), u=same_user,
                                     want_visible=True)))
            ops[-1]['var'] = 0
    for op in ops:
        if op['t'] in ('queue', 'treq') and m.may_upload(op['u'], op['f']):
            targets.append((op['u'], op['f'], op['via']))
    while len(ops) < n:
        if len(targets) >= 2 and len(ops) + 3 <= 12 and draw(st.integers(0, 9)) < 3:
            pair = draw(_burst(m, targets))
            if pair is not None:
                for op in pair:
                    _apply_to_model(m, op)
                    ops.append(op)
                ops.append({'t': 'adv', 'dt': 3})
                continue
        if targets and len(ops) + 3 <= 12 and draw(st.integers(0, 19)) < 3:
            # a change that takes permissions away, and while it is being reconciled (slow abort of a running
            # upload) the local user removes a transfer near the front of the transfer list
            a = draw(_flip_op(m, [draw(st.sampled_from(targets))]))
            if a is not None:
                a['gap'] = draw(st.sampled_from([1, 5, 20, 50, 100, 150, 250]))
                _apply_to_model(m, a)
                ops += [a, {'t': 'user', 'x': draw(st.sampled_from([0, 0, 0, 1, 2])), 'act': 'remove'},
                        {'t': 'adv', 'dt': 3}]
                continue
        if len(ops) + 3 <= 12 and draw(st.integers(0, 9)) < 2:
            for op in draw(_rebrowse(m)):
                _apply_to_model(m, op)
                ops.append(op)
            continue
        op = draw(_op(m, targets))
        if op['t'] in ('block', 'friend', 'setmode', 'adddir', 'rmdir') and draw(st.integers(0, 2)) == 0:
            op['gap'] = draw(st.sampled_from(GAPS))
        if op['t'] in ('block', 'friend') and draw(st.integers(0, 3)) == 0:
            op['assign'] = True
        _apply_to_model(m, op)
        ops.append(op)
        if op['t'] in ('queue', 'treq') and VARIANTS[op['var']] == 'exact' and m.may_upload(op['u'], op['f']) \
                and (op['u'], op['f'], op['via']) not in targets:
            targets.append((op['u'], op['f'], op['via']))
        if op['t'] in ('rmdir', 'reload') and len(ops) < n and draw(st.booleans()):
            # who sees what right after a directory went away
            ops.append(draw(st.sampled_from([{'t': 'shares', 'u': draw(st.integers(0, 2))},
                                             {'t': 'search', 'u': draw(st.integers(0, 2)), 'c': 0, 'q': 0}])))
        if op['t'] in ('block', 'friend', 'setmode', 'adddir', 'rmdir', 'reload') and len(ops) < n and \
                draw(st.integers(0, 9)) < 6:
            ops.append({'t': 'adv', 'dt': 3})
    return {
        'dirs': dirs, 'friends': friends, 'blocked': [list(b) for b in blocked],
        'phrases': draw(st.lists(st.sampled_from(PHRASES), max_size=2)),
        'behav': [draw(st.sampled_from([0, 0, 1, 1, 1, 2, 2, 2, 3])) for _ in USERS],
        'limit': draw(st.sampled_from([0, 1])), 'slots': draw(st.sampled_from([1, 2, 2, 3])),
        'xdelay': draw(st.integers(0, len(XDELAYS) - 1)),
        'front': draw(st.sampled_from([0, 1, 1, 2])),
        'listeners': draw(st.lists(st.tuples(
            st.sampled_from([0, 0, 0, 1, 2, 3]), st.sampled_from([0, 0, 0, 1, 2]),
            st.integers(0, len(LISTENER_PRIOS) - 1)).map(list), max_size=3)) if draw(st.integers(0, 9)) < 4 else [],
        'avoid': avoid, 'ops': ops[:12],
        **forced,
    }


# ---------------------------------------------------------------------------
# sanitising (run_case is total: shrunk documents are clamped into the domain)

def _int(v, default=0):
    if isinstance(v, bool):
        return int(v)
    if isinstance(v, (int, float)):
        try:
            return int(v)
        except (OverflowError, ValueError):
            return default
    return default


def _users(v):
    out = []
    for x in (v if isinstance(v, list) else []):
        u = _int(x) % 3
        if u not in out:
            out.append(u)
    return out


def _phrases(v):
    out = []
    for p in (v if isinstance(v, list) else [])[:3]:
        if isinstance(p, str) and p.strip() and set(p) <= PHRASE_ALPHABET:
            out.append(p)
    return out


def _sanitise(case):
    if not isinstance(case, dict):
        return None
    dirs, seen = [], set()
    for e in (case.get('dirs') if isinstance(case.get('dirs'), list) else [])[:3]:
        if not isinstance(e, list) or len(e) < 1:
            continue
        d = _int(e[0]) % len(CAND)
        if d in seen:
            continue
        seen.add(d)
        dirs.append((d, _int(e[1]) % 3 if len(e) > 1 else 0, _users(e[2]) if len(e) > 2 else []))
    blocked = {}
    for e in (case.get('blocked') if isinstance(case.get('blocked'), list) else [])[:3]:
        if isinstance(e, list) and len(e) >= 2:
            flags = _int(e[1]) % 64
            if flags:
                blocked[_int(e[0]) % 3] = flags
    behav = case.get('behav') if isinstance(case.get('behav'), list) else []
    behav = [(_int(behav[i]) % len(BEHAVIOURS)) if i < len(behav) else 0 for i in range(3)]
    ops = []
    for op in (case.get('ops') if isinstance(case.get('ops'), list) else [])[:12]:
        if not isinstance(op, dict):
            continue
        t = op.get('t')
        g = lambda k: _int(op.get(k))   # noqa: E731
        gap = max(1, min(500, g('gap'))) if op.get('gap') is not None else 20
        if t == 'search':
            ops.append({'t': t, 'u': g('u') % 3, 'c': g('c') % len(CARRIERS), 'q': g('q') % len(QUERIES)})
        elif t == 'shares':
            ops.append({'t': t, 'u': g('u') % 3})
        elif t == 'dirreq':
            ops.append({'t': t, 'u': g('u') % 3, 'd': g('d') % len(CAND), 'via': g('via') % 3})
        elif t in ('queue', 'treq'):
            ops.append({'t': t, 'u': g('u') % 3, 'f': g('f') % len(FILES), 'via': g('via') % 3,
                        'var': g('var') % len(VARIANTS)})
        elif t == 'friend':
            ops.append({'t': t, 'u': g('u') % 3, 'add': bool(op.get('add')), 'gap': gap,
                        'assign': bool(op.get('assign'))})
        elif t == 'block':
            ops.append({'t': t, 'u': g('u') % 3, 'flags': g('flags') % 64, 'rm': bool(op.get('rm')), 'gap': gap,
                        'assign': bool(op.get('assign'))})
        elif t == 'setmode':
            ops.append({'t': t, 'd': g('d') % 3, 'mode': g('mode') % 3,
                        'users': None if op.get('users') is None else _users(op.get('users')), 'gap': gap})
        elif t == 'adddir':
            ops.append({'t': t, 'd': g('d') % len(CAND), 'mode': g('mode') % 3, 'users': _users(op.get('users')),
                        'scan': g('scan') % 3, 'gap': gap})
        elif t == 'rmdir':
            ops.append({'t': t, 'd': g('d') % 3, 'scan': 2 if g('scan') % 3 == 2 else 0, 'gap': gap})
        elif t == 'rescan':
            ops.append({'t': t, 'd': g('d') % 4})
        elif t == 'reload':
            ops.append({'t': t, 'drop': g('drop') % 64, 'gap': gap})
        elif t == 'phrases':
            ops.append({'t': t, 'p': _phrases(op.get('p'))})
        elif t == 'user':
            act = op.get('act')
            ops.append({'t': t, 'x': g('x') % 16, 'act': act if act in ('abort', 'pause', 'queue', 'remove') else 'abort'})
        elif t == 'adv':
            ops.append({'t': t, 'dt': g('dt') % len(ADVANCES)})
    listeners = []
    for e in (case.get('listeners') if isinstance(case.get('listeners'), list) else [])[:3]:
        if isinstance(e, list) and len(e) >= 3:
            listeners.append((_int(e[0]) % len(LISTENER_EVENTS), _int(e[1]) % len(LISTENER_KINDS),
                              LISTENER_PRIOS[_int(e[2]) % len(LISTENER_PRIOS)]))
    return {
        'listeners': listeners, 'front': _int(case.get('front')) % 3,
        'dirs': dirs, 'friends': _users(case.get('friends')), 'blocked': blocked,
        'phrases': _phrases(case.get('phrases')), 'behav': behav, 'limit': _int(case.get('limit')) % 2,
        'slots': 1 + (_int(case.get('slots')) - 1) % 3, 'avoid': bool(case.get('avoid')), 'ops': ops,
        'xdelay': XDELAYS[_int(case.get('xdelay')) % len(XDELAYS)],
    }


# ---------------------------------------------------------------------------

def run_case(case) -> CaseResult:
    res = CaseResult()
    c = _sanitise(case)
    if c is None or not c['dirs']:
        return res

    import aioslsk.shares.manager as shares_manager_module
    from aioslsk.exceptions import (
        InvalidStateTransition, SharedDirectoryError, TransferNotFoundError,
    )
    from aioslsk.protocol import messages as M
    from aioslsk.shares.model import DirectoryShareMode
    from aioslsk.user.model import BlockingFlag

    root = os.path.realpath(tempfile.mkdtemp(prefix='vfw-c08-', dir=_TMP_PARENT))

    def apath(t):
        return os.path.join(root, *t)

    model = Model(c['dirs'], c['friends'], c['blocked'])
    state = {'phrases': list(c['phrases']), 'index_dirty': False, 'nontrivial': False, 'skip': None}
    seen_kinds = set()

    def violate(kind, detail):
        # one record per kind and case is enough (details of the first occurrence)
        if kind not in seen_kinds:
            seen_kinds.add(kind)
            res.violate(kind, detail)

    gc_was_enabled = gc.isenabled()
    gc.disable()
    gc.freeze()
    saved_uuid = shares_manager_module.uuid
    shares_manager_module.uuid = types.SimpleNamespace(getnode=lambda: 0x0123456789AB)
    try:
        for cdir in CAND:
            os.makedirs(apath(cdir), exist_ok=True)
        for i, (d, name, size) in enumerate(FILES):
            with open(os.path.join(apath(d), name), 'wb') as fh:
                fh.write(xfer.content(i + 1, size))

        async def main(world: simworld.World):
            loop = world.loop
            settings = simworld.mk_settings('me')
            settings.transfers.limits.upload_slots = c['slots']
            if c['limit']:
                settings.network.limits.upload_speed_kbps = c['limit']
            for d, mode, users in c['dirs']:
                xfer.share_dir_settings(settings, apath(CAND[d]), MODES[mode], [USERS[u] for u in users])
            settings.users.friends = {USERS[u] for u in c['friends']}
            settings.users.blocked = {USERS[u]: BlockingFlag(fl) for u, fl in c['blocked'].items()}

            downs = {}
            for i, name in enumerate(USERS):
                dn = xfer.ScriptedDownloader(world, name)
                b = BEHAVIOURS[c['behav'][i]]
                if b == 'hold':
                    dn.close_when_complete = False
                elif b == 'silent':
                    dn.silent = True
                elif b == 'refuse':
                    dn.allow = False
                downs[name] = dn
            dpeer = world.add_peer('dp')
            if state['phrases']:
                world.server.post_login = [M.ExcludedSearchPhrases.Response(list(state['phrases']))]
            client = world.make_client(settings)
            # application listeners (the bus holds them weakly: keep them alive here); whatever they do, the
            # library has to reconcile
            app_listeners = []
            import aioslsk.events as events_module
            for ev, kind, prio in c['listeners']:
                calls = [0]
                if LISTENER_KINDS[kind] == 'sync-raises':
                    def listener(event, calls=calls):
                        calls[0] += 1
                        raise RuntimeError('application listener failed')
                elif LISTENER_KINDS[kind] == 'async-raises':
                    async def listener(event, calls=calls):
                        calls[0] += 1
                        raise RuntimeError('application listener failed')
                else:
                    def listener(event, calls=calls):
                        calls[0] += 1
                app_listeners.append(listener)
                client.events.register(getattr(events_module, LISTENER_EVENTS[ev]), listener, priority=prio)
                res.label(f'listener:{LISTENER_EVENTS[ev]}:{LISTENER_KINDS[kind]}:' +
                          ('front' if prio < 100 else 'back'))
            # observation only: when did the library re-evaluate the uploads (TransferManager.manage_shares_changed is
            # looked up on the instance by the management job)
            msc_runs = []        # [start, end, loop iteration at start] (virtual time)
            orig_msc = client.transfers.manage_shares_changed

            async def observed_msc():
                rec = [world.loop.time(), None, world.loop.iterations]
                msc_runs.append(rec)
                try:
                    return await orig_msc()
                finally:
                    rec[1] = world.loop.time()
            client.transfers.manage_shares_changed = observed_msc
            await client.start()
            await client.login()
            shares = client.shares
            transfers = client.transfers
            await shares.scan()
            # old entries at the front of the transfer list (paused downloads from a user that plays no other role)
            for i in range(c['front']):
                await transfers.download('dave', '@@qqqqq\\old %d.txt' % i, paused=True)
            await asyncio.sleep(0.05)
            xd = c['xdelay']
            if xd:
                loop.executor_delay = lambda: xd
                res.label('slow-executor')
            wait_req = 0.05 + 3 * xd          # a request is handled after exists() + getsize() on the executor
            slack = 4 * xd                    # extra reconciliation horizon: slow aborts delay the next cycle

            alias = [shares.generate_alias(os.path.normpath(apath(cd))) for cd in CAND]
            if len(set(alias)) != len(alias):
                state['skip'] = 'alias-collision'
                await client.stop()
                return
            alias_to_cand = {a: i for i, a in enumerate(alias)}
            bad_alias = 'zzzzz' if 'zzzzz' not in alias_to_cand else 'yyyyy'

            # ---- names ------------------------------------------------------
            def rel_of(f, via_cand):
                d, name, _ = FILES[f]
                return list(d[len(CAND[via_cand]):]) + [name]

            def rpath(f, via_idx, var):
                via_cand = ENCL[f][via_idx % len(ENCL[f])]
                rel = rel_of(f, via_cand)
                head, tail = '@@' + alias[via_cand], '\\'.join(rel)
                v = VARIANTS[var]
                if v == 'upper':
                    return head + '\\' + tail.upper()
                if v == 'lower':
                    return head + '\\' + tail.lower()
                if v == 'dblsep':
                    return head + '\\\\' + tail
                if v == 'fwd':
                    return head + '/' + tail.replace('\\', '/')
                if v == 'trail':
                    return head + '\\' + tail + '\\'
                if v == 'nofile':
                    return head + '\\' + '\\'.join(rel[:-1] + ['missing.txt'])
                if v == 'noalias':
                    return '@@' + bad_alias + '\\' + tail
                return head + '\\' + tail

            def resolve(r):
                """Remote path -> file index (exact-string semantics), None if it names no file of the tree."""
                if not isinstance(r, str) or not r.startswith('@@'):
                    return None
                parts = r[2:].split('\\')
                ci = alias_to_cand.get(parts[0])
                if ci is None:
                    return None
                return FILE_BY_TUPLE.get(CAND[ci] + tuple(parts[1:]))

            # ---- library observation (strings only) ---------------------------
            misplaced = set()    # files whose item was at some point held by a shared directory other than the innermost
            tainted = set()      # files that were at some point held by an item referring to another directory

            def note_stale():
                # the listed finding concerns items moved between *nested* directories: the holding directory
                # really contains the file (component-wise); an item held by a mere string-prefix sibling is not it
                for sd in shares.shared_directories:
                    holder = tuple(os.path.relpath(os.path.normpath(sd.absolute_path), root).split(os.sep))
                    for it in sd.items:
                        owner = it.shared_directory
                        if owner is sd:
                            continue
                        ap = os.path.normpath(it.get_absolute_path())
                        ft = tuple(os.path.relpath(ap, root).split(os.sep))
                        f = FILE_BY_TUPLE.get(ft)
                        if f is not None and ft[:len(holder)] == holder:
                            tainted.add(f)
                            inner = model.innermost(f)
                            if inner is not None and CAND[inner] != holder:
                                # not the listed finding (item keeps its old directory) but an item handed to a
                                # directory that is not the closest remaining shared parent
                                misplaced.add(f)

            def K(what, f=None):
                if f is not None and f in misplaced:
                    return f'C08/item-handed-to-wrong-parent:{what}'
                if f is not None and f in tainted:
                    return f'C08/{STALE}:{what}'
                return f'C08/{what}'

            def uploads():
                out = []
                for t in transfers.transfers:
                    if t.is_upload():
                        out.append((t.username, t.remote_path, t))
                out.sort(key=lambda x: (x[0], x[1]))
                return out

            def states():
                return {(u, r): t.state.VALUE.name for u, r, t in uploads()}

            def received(uname, r):
                return sum(len(a.received) for a in downs[uname].by_path.get(r, []))

            def offers(uname, r):
                return sum(1 for _, m in downs[uname].transfer_requests if m.filename == r)

            def indexed(r):
                try:
                    return shares.find_shared_item_cache(r) is not None
                except Exception:
                    return False

            async def lib(api, fn, *a, documented=(), **kw):
                try:
                    r = fn(*a, **kw)
                    if asyncio.iscoroutine(r):
                        r = await r
                    return True, r
                except documented as exc:
                    return False, exc
                except Exception as exc:    # noqa: BLE001
                    violate(f'C08/unexpected-exception:{type(exc).__name__}@{api}', repr(exc)[:300])
                    return False, exc

            # ---- replies -------------------------------------------------------
            ctx_search = {}      # ticket -> (model copy, phrases)
            ctx_shares = {}      # user index -> model copy
            ctx_dir = {}
            cursor = {name: 0 for name in USERS}

            def check_phrases(u, fd, phrases, where):
                rel = fd.filename.split('\\', 1)[1] if '\\' in fd.filename else fd.filename
                for p in phrases:
                    if p.lower() in rel.lower():
                        how = 'phrase-not-lower-case' if p != p.lower() else 'lower-case-phrase'
                        violate(f'C08/search-reply-contains-excluded-phrase:{how}',
                                f'PeerSearchReply.{where} to {USERS[u]} lists {fd.filename!r} although the server '
                                f'excluded the phrase {p!r} (phrases={phrases})')

            def drain():
                for u, name in enumerate(USERS):
                    msgs = downs[name].messages
                    new = msgs[cursor[name]:]
                    cursor[name] = len(msgs)
                    for when, m in new:
                        if isinstance(m, M.PeerSearchReply.Request):
                            snap = ctx_search.get(m.ticket)
                            if snap is None:
                                continue
                            sm, phrases, carrier = snap
                            res.label('search-reply')
                            if sm.is_blocked(u, SEARCHES):
                                violate(f'C08/reply-to-blocked-user:search:{carrier}',
                                        f'{name} is blocked with flags {sm.blocked.get(u)} (SEARCHES=4) and still got '
                                        f'a PeerSearchReply for ticket {m.ticket} with {len(m.results)} results')
                            for fd in m.results:
                                f = resolve(fd.filename)
                                if f is None:
                                    res.label('result-outside-tree')
                                    continue
                                if not sm.visible(u, f):
                                    violate(K('search-lists-locked-as-visible', f),
                                            f'PeerSearchReply.results to {name} contains {fd.filename!r}; innermost '
                                            f'shared directory {_dname(sm.innermost(f))} {_dmode(sm, sm.innermost(f))} '
                                            f'does not admit {name} (friends={_names(sm.friends)})')
                                check_phrases(u, fd, phrases, 'results')
                            for fd in (m.locked_results or []):
                                f = resolve(fd.filename)
                                if f is None:
                                    continue
                                res.label('search-locked-entry')
                                if sm.visible(u, f):
                                    violate(K('search-locked-list-contains-visible', f),
                                            f'PeerSearchReply.locked_results to {name} contains {fd.filename!r} which '
                                            f'is visible to {name} ({_dname(sm.innermost(f))} '
                                            f'{_dmode(sm, sm.innermost(f))})')
                                check_phrases(u, fd, phrases, 'locked_results')
                        elif isinstance(m, M.PeerSharesReply.Request):
                            sm = ctx_shares.get(u)
                            if sm is None:
                                continue
                            res.label('shares-reply')
                            if sm.is_blocked(u, SHARES):
                                violate('C08/reply-to-blocked-user:shares',
                                        f'{name} is blocked with flags {sm.blocked.get(u)} (SHARES=8) and still got a '
                                        f'PeerSharesReply')
                            for lst, locked in ((m.directories, False), (m.locked_directories or [], True)):
                                for dd in lst:
                                    for fd in dd.files:
                                        r = dd.name + '\\' + fd.filename
                                        f = resolve(r)
                                        if f is None:
                                            continue
                                        if not locked and not sm.visible(u, f):
                                            violate(K('shares-reply-lists-locked-as-visible', f),
                                                    f'PeerSharesReply.directories to {name} contains {r!r}; '
                                                    f'{_dname(sm.innermost(f))} {_dmode(sm, sm.innermost(f))} does '
                                                    f'not admit {name}')
                                        if locked and sm.visible(u, f):
                                            violate(K('shares-locked-list-contains-visible', f),
                                                    f'PeerSharesReply.locked_directories to {name} contains {r!r} '
                                                    f'which is visible to {name}')
                        elif isinstance(m, M.PeerDirectoryContentsReply.Request):
                            sm = ctx_dir.get(u)
                            if sm is None:
                                continue
                            res.label('directory-reply')
                            if sm.is_blocked(u, SHARES):
                                violate('C08/reply-to-blocked-user:directory',
                                        f'{name} is blocked with flags {sm.blocked.get(u)} (SHARES=8) and still got a '
                                        f'PeerDirectoryContentsReply')
                            for dd in m.directories:
                                for fd in dd.files:
                                    r = dd.name + '\\' + fd.filename
                                    f = resolve(r)
                                    if f is None:
                                        continue
                                    if not sm.visible(u, f):
                                        violate('C08/directory-reply-lists-locked-file',
                                                f'PeerDirectoryContentsReply to {name} for {m.directory!r} lists '
                                                f'{r!r}; {_dname(sm.innermost(f))} {_dmode(sm, sm.innermost(f))} '
                                                f'does not admit {name}')

            # ---- reconciliation ---------------------------------------------------
            revoked_iter = {}    # same moment as a loop iteration number (orders events of one virtual instant)
            revoked_at = {}      # (username, remote path) -> time may_upload was lost while the upload was unfinished
            requested = set()    # (username, remote path) aborted by the local user and not queued since
            frozen = {}          # (username, remote path) -> bytes received when found reconciled and not permitted
            unreliable = set()

            def thaw():
                for key in list(frozen):
                    u = USERS.index(key[0])
                    if model.may_upload(u, resolve(key[1])):
                        del frozen[key]

            def check_frozen(tag):
                for key, n in sorted(frozen.items()):
                    got = received(*key)
                    if got != n:
                        f = resolve(key[1])
                        violate(K('bytes-written-after-reconciliation', f),
                                f'{tag}: upload {key} is not permitted since the last settle, yet the peer received '
                                f'{got - n} more bytes ({n} -> {got})')
                        frozen[key] = got

            def check_reconciled(tag, loop_errors_now):
                check_frozen(tag)
                for uname, r, t in uploads():
                    if uname not in USERS:
                        continue
                    u = USERS.index(uname)
                    key = (uname, r)
                    f = resolve(r)
                    st_name = t.state.VALUE.name
                    reason = t.abort_reason
                    extra = f' [loop errors: {loop_errors_now}]' if loop_errors_now else ''
                    t_rev = revoked_at.get(key)
                    if t_rev is not None and not model.may_upload(u, f):
                        # reconciliation point = end of the first re-evaluation that started after the permission
                        # was lost (it reads the live settings). An offer sent by an earlier cycle reaches the peer
                        # at least 40 ms before that point; anything later was started although not permitted
                        it_rev = revoked_iter.get(key, 1 << 60)
                        done_at = next((e for b, e, it in msc_runs if it > it_rev and e is not None), None)
                        if done_at is not None:
                            late = [round(tm - 1000, 3) for tm, m in downs[uname].transfer_requests
                                    if m.filename == r and tm > done_at - 0.01]
                            if late:
                                violate(K('upload-offered-after-reconciliation', f),
                                        f'{tag}: upload {key} lost its permission at t={t_rev - 1000:.3f} '
                                        f'({model.why_not(u, f)}); the library finished re-evaluating its uploads at '
                                        f't={done_at - 1000:.3f} and still offered the file (PeerTransferRequest at the '
                                        f'peer at t={late}), state now {st_name}{extra}')
                    if key in requested:
                        if st_name != 'ABORTED' or reason != 'Requested':
                            violate(K('requested-abort-not-kept', f),
                                    f'{tag}: upload {key} was aborted by the local user; now state={st_name} '
                                    f'abort_reason={reason!r} (may_upload={model.may_upload(u, f)}){extra}')
                        else:
                            res.label('requested-abort-kept')
                        continue
                    if st_name in ('COMPLETE', 'FAILED'):
                        t0 = revoked_at.pop(key, None)
                        done = [a.complete_time for a in downs[uname].by_path.get(r, []) if a.complete_time is not None]
                        if st_name == 'COMPLETE' and t0 is not None and done and max(done) > t0 and \
                                not model.may_upload(u, f):
                            # served between the change and the cycle that reconciles it (tolerated)
                            res.label('completed-inside-reconciliation-window')
                        if st_name == 'COMPLETE' and t0 is not None and done and max(done) > t0 + 1.6 + slack:
                            violate(K('upload-completed-after-revocation', f),
                                    f'{tag}: upload {key} lost its permission at t={t0 - 1000:.3f} '
                                    f'({model.why_not(u, f)}) while unfinished and was still served: the peer got the '
                                    f'last byte at t={max(done) - 1000:.3f}{extra}')
                        continue
                    if not model.may_upload(u, f):
                        why = model.why_not(u, f)
                        exp = 'Blocked' if model.is_blocked(u, UPLOADS) else 'File not shared'
                        if st_name != 'ABORTED':
                            violate(K(f'unpermitted-upload-not-aborted:{why}', f),
                                    f'{tag}: upload {key} is {st_name} although not permitted ({why}: blocked='
                                    f'{model.blocked.get(u, 0)}, innermost={_dname(model.innermost(f) if f is not None else None)} '
                                    f'{_dmode(model, model.innermost(f) if f is not None else None)}, friends='
                                    f'{_names(model.friends)}){extra}')
                        elif reason != exp:
                            violate(K(f'abort-reason-wrong:{reason}:expected-{exp}', f),
                                    f'{tag}: upload {key} is ABORTED with reason {reason!r}, expected {exp!r}{extra}')
                        else:
                            res.label('reconciled-aborted:' + exp)
                        if key not in frozen:
                            frozen[key] = received(*key)
                    else:
                        if st_name == 'ABORTED':
                            if indexed(r) and not state['index_dirty']:
                                violate(K(f'not-requeued:{reason}', f),
                                        f'{tag}: upload {key} is permitted again (innermost='
                                        f'{_dname(model.innermost(f))} {_dmode(model, model.innermost(f))}, blocked='
                                        f'{model.blocked.get(u, 0)}) but still ABORTED with reason {reason!r}{extra}')
                            else:
                                res.label('aborted-path-not-indexed')
                        else:
                            res.label('permitted-upload:' + st_name)

            def note_flips(before):
                """Label/nontrivial: a configuration change flips may_upload of an unfinished upload."""
                for uname, r, t in uploads():
                    if uname not in USERS or t.state.VALUE.name in ('COMPLETE', 'FAILED'):
                        continue
                    u = USERS.index(uname)
                    f = resolve(r)
                    now = model.may_upload(u, f)
                    if before.may_upload(u, f) != now:
                        state['nontrivial'] = True
                        res.label(('revoke-while:' if not now else 'restore-while:') + t.state.VALUE.name)
                        if now:
                            revoked_at.pop((uname, r), None)
                        else:
                            revoked_at[(uname, r)] = loop.time()
                            revoked_iter[(uname, r)] = loop.iterations

            # ---- operations ---------------------------------------------------------
            last_change = {}     # user index -> time of the last friend/block change
            dlink = {'l': None}
            ticket = [100]

            async def wait_tick_for(u):
                t = last_change.get(u)
                if t is not None and loop.time() - t < 1.05:
                    await asyncio.sleep(1.05 - (loop.time() - t))

            async def do_op(op):
                t = op['t']
                res.label('op:' + t)
                if t == 'adv':
                    dt = ADVANCES[op['dt']]
                    if dt >= SETTLE:
                        dt += slack
                    await asyncio.sleep(dt)
                    drain()
                    if dt >= SETTLE:
                        check_reconciled('after settle', _errs(loop))
                    return
                if t == 'search':
                    u = op['u']
                    ticket[0] += 1
                    carrier = CARRIERS[op['c']]
                    q = QUERIES[op['q']]
                    ctx_search[ticket[0]] = (model.copy(), list(state['phrases']), carrier)
                    if model.is_blocked(u, SEARCHES):
                        state['nontrivial'] = True
                        res.label('search-by-blocked-user')
                    if any(model.innermost(f) is not None and not model.visible(u, f) for f in range(len(FILES))):
                        state['nontrivial'] = True
                        res.label('search-with-locked-files')
                    if state['phrases']:
                        res.label('search-with-excluded-phrases')
                    if carrier == 'file-search':
                        world.server.send(M.FileSearch.Response(USERS[u], ticket[0], q))
                    elif carrier == 'server-search':
                        world.server.send(M.ServerSearchRequest.Response(3, 0x31, USERS[u], ticket[0], q))
                    else:
                        link = dlink['l']
                        if link is None or link.ep.dead or link.ep.peer_closed:
                            link = dlink['l'] = dpeer.connect('D')
                            await asyncio.sleep(0.01)
                        if carrier == 'distributed-search':
                            link.send_msg(M.DistributedSearchRequest.Request(0x31, USERS[u], ticket[0], q))
                        else:
                            # deprecated wrapped carrier: the server search request passed on as-is by the parent
                            link.send_msg(M.DistributedServerSearchRequest.Request(
                                M.DistributedSearchRequest.Request.MESSAGE_ID, 0x31, USERS[u], ticket[0], q))
                    await asyncio.sleep(wait_req)
                    drain()
                    return
                if t in ('shares', 'dirreq'):
                    u = op['u']
                    dn = downs[USERS[u]]
                    if model.is_blocked(u, SHARES):
                        state['nontrivial'] = True
                        res.label(t + '-by-blocked-user')
                    if any(model.innermost(f) is not None and not model.visible(u, f) for f in range(len(FILES))):
                        state['nontrivial'] = True
                    if t == 'shares':
                        ctx_shares[u] = model.copy()
                        dn._control().send_msg(M.PeerSharesRequest.Request())
                    else:
                        d = op['d']
                        encl = [ci for ci, cd in enumerate(CAND) if CAND[d][:len(cd)] == cd]
                        via = encl[op['via'] % len(encl)]
                        name = '\\'.join(['@@' + alias[via]] + list(CAND[d][len(CAND[via]):]))
                        ctx_dir[u] = model.copy()
                        ticket[0] += 1
                        dn._control().send_msg(M.PeerDirectoryContentsRequest.Request(ticket[0], name))
                    await asyncio.sleep(wait_req)
                    drain()
                    return
                if t in ('queue', 'treq'):
                    u = op['u']
                    uname = USERS[u]
                    r = rpath(op['f'], op['via'], op['var'])
                    f = resolve(r)
                    allowed = model.may_upload(u, f)
                    before = states()
                    served_before = (offers(uname, r), received(uname, r))
                    if t == 'queue':
                        downs[uname].queue(r)
                    else:
                        ticket[0] += 1
                        downs[uname].request_upload(r, ticket=ticket[0])
                    await asyncio.sleep(wait_req)
                    drain()
                    after = states()
                    key = (uname, r)
                    sb, sa = before.get(key), after.get(key)
                    if not allowed:
                        why = model.why_not(u, f)
                        if why in ('blocked', 'locked'):
                            state['nontrivial'] = True
                        res.label(f'request-refused:{why}' if sa is None or sa == sb else f'request-not-permitted:{why}')
                        if sb is None and sa is not None:
                            violate(K(f'upload-created-not-permitted:{t}:{why}', f),
                                    f'{t} from {uname} for {r!r} created an upload (state {sa}) although '
                                    f'{why}: blocked={model.blocked.get(u, 0)} (UPLOADS=32), innermost='
                                    f'{_dname(model.innermost(f) if f is not None else None)} '
                                    f'{_dmode(model, model.innermost(f) if f is not None else None)}, friends='
                                    f'{_names(model.friends)}')
                        elif sb in ('COMPLETE', 'FAILED') and sa in ('QUEUED', 'INITIALIZING', 'UPLOADING'):
                            violate(K(f'upload-restarted-not-permitted:{t}:{why}', f),
                                    f'{t} from {uname} for {r!r} moved the finished upload {sb} -> {sa} although {why}')
                        elif sb in ('COMPLETE', 'FAILED', 'ABORTED') and \
                                (offers(uname, r), received(uname, r)) != served_before:
                            # a fast peer completes the restarted upload within the observation window
                            violate(K(f'upload-restarted-not-permitted:{t}:{why}', f),
                                    f'{t} from {uname} for {r!r} restarted the {sb} upload although {why}: '
                                    f'(PeerTransferRequests, bytes) at the peer {served_before} -> '
                                    f'{(offers(uname, r), received(uname, r))}, state now {sa}')
                    else:
                        res.label('request-permitted' + (':created' if sb is None and sa is not None else
                                                         (':no-upload' if sa is None else ':existing')))
                    return
                if t == 'phrases':
                    state['phrases'] = list(op['p'])
                    world.server.send(M.ExcludedSearchPhrases.Response(list(op['p'])))
                    await asyncio.sleep(0.02)
                    return
                if t == 'user' and op['act'] == 'remove':
                    # the local user clears an entry, addressed by its position in the live transfer list
                    allt = list(transfers.transfers)
                    if not allt:
                        return
                    tr = allt[op['x'] % len(allt)]
                    key = (tr.username, tr.remote_path)
                    res.label('user-remove:' + ('upload:' if tr.is_upload() else 'download:') + tr.state.VALUE.name)
                    ok, _ = await lib('transfers.remove', transfers.remove, tr, documented=(TransferNotFoundError,))
                    if ok and tr.is_upload():
                        requested.discard(key)
                        frozen.pop(key, None)
                        revoked_at.pop(key, None)
                    del tr, allt
                    await asyncio.sleep(0.02)
                    return
                if t == 'user':
                    ups = uploads()
                    if not ups:
                        return
                    uname, r, tr = ups[op['x'] % len(ups)]
                    key = (uname, r)
                    act = op['act']
                    u = USERS.index(uname) if uname in USERS else None
                    if act == 'queue':
                        # documented for ABORTED / PAUSED (/ finished) transfers only, and outside the statement
                        # when it would override an automatic abort
                        if u is None or not model.may_upload(u, resolve(r)) or \
                                tr.state.VALUE.name not in ('PAUSED', 'ABORTED'):
                            res.label('user-queue-skipped')
                            return
                        ok, _ = await lib('transfers.queue', transfers.queue, tr,
                                          documented=(InvalidStateTransition, TransferNotFoundError))
                        if ok:
                            requested.discard(key)
                    elif act == 'pause':
                        await lib('transfers.pause', transfers.pause, tr,
                                  documented=(InvalidStateTransition, TransferNotFoundError))
                    else:
                        before_state = tr.state.VALUE.name
                        ok, _ = await lib('transfers.abort', transfers.abort, tr,
                                          documented=(InvalidStateTransition, TransferNotFoundError))
                        if ok:
                            requested.add(key)
                            res.label('user-abort-from:' + before_state)
                    del tr
                    await asyncio.sleep(0.02)
                    return

                # ---- configuration changes ------------------------------------------
                before_model = model.copy()
                if t == 'friend':
                    u = op['u']
                    changed = (u not in model.friends) if op['add'] else (u in model.friends)
                    if changed:
                        await wait_tick_for(u)
                        last_change[u] = loop.time()
                    (model.friends.add if op['add'] else model.friends.discard)(u)
                    if op['assign']:
                        # replacing the whole set is the other documented way to change the list at run time
                        client.settings.users.friends = {USERS[x] for x in model.friends}
                        res.label('friends-assigned')
                    elif op['add']:
                        client.settings.users.friends.add(USERS[u])
                    else:
                        client.settings.users.friends.discard(USERS[u])
                elif t == 'block':
                    u = op['u']
                    new = op['flags']
                    if new != model.blocked.get(u, 0):
                        await wait_tick_for(u)
                        last_change[u] = loop.time()
                    if new:
                        model.blocked[u] = new
                    else:
                        model.blocked.pop(u, None)
                    if op['assign']:
                        client.settings.users.blocked = {USERS[x]: BlockingFlag(fl) for x, fl in model.blocked.items()}
                        res.label('blocked-assigned')
                    elif new == 0 and op['rm']:
                        client.settings.users.blocked.pop(USERS[u], None)
                    else:
                        client.settings.users.blocked[USERS[u]] = BlockingFlag(new)
                elif t == 'setmode':
                    if not model.shared:
                        return
                    d = sorted(model.shared)[op['d'] % len(model.shared)]
                    users = None if op['users'] is None else [USERS[x] for x in op['users']]
                    ok, _ = await lib('update_shared_directory', shares.update_shared_directory,
                                      apath(CAND[d]), share_mode=DirectoryShareMode(MODES[op['mode']]), users=users)
                    if ok:
                        model.shared[d][0] = op['mode']
                        if op['users'] is not None:
                            model.shared[d][1] = set(op['users'])
                        state['index_dirty'] = False
                elif t == 'adddir':
                    d = op['d']
                    if d in model.shared:
                        res.label('adddir-already-shared')
                        return
                    nested = model.has_shared_ancestor(d)
                    scan = 2 if c['avoid'] else op['scan']
                    res.label('adddir:' + ('nested' if nested else 'top') + ':scan%d' % scan)
                    ok, sd = await lib('add_shared_directory', shares.add_shared_directory, apath(CAND[d]),
                                       share_mode=DirectoryShareMode(MODES[op['mode']]),
                                       users=[USERS[x] for x in op['users']], documented=(SharedDirectoryError,))
                    if ok:
                        model.shared[d] = [op['mode'], set(op['users'])]
                        state['index_dirty'] = False
                        note_stale()     # the management cycle can run before the scan below has finished
                        if scan == 1:
                            await lib('scan_directory_files', shares.scan_directory_files, sd)
                            await lib('scan_directory_file_attributes', shares.scan_directory_file_attributes, sd)
                            state['index_dirty'] = True
                        elif scan == 2:
                            await lib('scan', shares.scan)
                    del sd
                elif t == 'rmdir':
                    if not model.shared:
                        return
                    d = sorted(model.shared)[op['d'] % len(model.shared)]
                    nested = model.has_shared_ancestor(d)
                    scan = 2 if c['avoid'] else op['scan']
                    res.label('rmdir:' + ('nested' if nested else 'top') + ':scan%d' % scan)
                    if model.has_prefix_sibling(d):
                        res.label('rmdir:has-prefix-sibling')
                    ok, sd = await lib('remove_shared_directory', shares.remove_shared_directory, apath(CAND[d]),
                                       documented=(SharedDirectoryError,))
                    del sd
                    if ok:
                        del model.shared[d]
                        state['index_dirty'] = False
                        note_stale()
                        if scan == 2:
                            await lib('scan', shares.scan)
                elif t == 'reload':
                    # settings.shares.directories replaced by a shorter list (same order, current modes) and applied
                    # the way start() does it: load_from_settings() followed by a scan
                    from aioslsk.settings import SharedDirectorySettingEntry
                    order = []
                    for sd in shares.shared_directories:
                        tup = tuple(os.path.relpath(os.path.normpath(sd.absolute_path), root).split(os.sep))
                        if tup in CAND and CAND.index(tup) in model.shared:
                            order.append(CAND.index(tup))
                    dropped = [d for i, d in enumerate(order) if (op['drop'] >> (i % 6)) & 1]
                    keep = [d for d in order if d not in dropped]
                    res.label('reload:drop%d' % len(dropped) + (':adjacent' if any(
                        order[i] in dropped and order[i + 1] in dropped for i in range(len(order) - 1)) else ''))
                    client.settings.shares.directories = [
                        SharedDirectorySettingEntry(
                            path=apath(CAND[d]), share_mode=DirectoryShareMode(MODES[model.shared[d][0]]),
                            users=[USERS[x] for x in sorted(model.shared[d][1])]) for d in keep]
                    await lib('load_from_settings', shares.load_from_settings)
                    for d in dropped:
                        del model.shared[d]
                    note_stale()
                    await lib('scan', shares.scan)
                    state['index_dirty'] = False
                elif t == 'rescan':
                    if op['d'] == 3 or not model.shared:
                        await lib('scan', shares.scan)
                        state['index_dirty'] = False
                    else:
                        d = sorted(model.shared)[op['d'] % len(model.shared)]
                        ok, sd = await lib('get_shared_directory', shares.get_shared_directory, apath(CAND[d]))
                        if ok:
                            await lib('scan_directory_files', shares.scan_directory_files, sd)
                            state['index_dirty'] = True
                        del sd
                else:
                    return
                gc.collect()
                note_stale()
                if tainted:
                    res.label('stale-moved-items')
                note_flips(before_model)
                thaw()
                gap = op.get('gap', 20)
                if gap != 20:
                    res.label('gap<=50ms' if gap <= 50 else 'gap>50ms')
                await asyncio.sleep(gap / 1000)
                drain()

            for op in c['ops']:
                await do_op(op)
            await asyncio.sleep(SETTLE + 0.5 + slack)
            drain()
            check_reconciled('final settle', _errs(loop))
            await asyncio.sleep(0.5)
            drain()
            check_frozen('end')
            for _, _, t in uploads():
                res.label('final:' + t.state.VALUE.name + (':' + t.abort_reason if t.abort_reason else ''))
            try:
                await client.stop()
            except Exception as exc:    # noqa: BLE001  (C16's subject)
                res.label('stop-raised:' + type(exc).__name__)

        _, loop_errors = simworld.run_world(main)
        for e in loop_errors:
            res.label('loop-error:' + str(e.get('exc_type')))
    finally:
        shares_manager_module.uuid = saved_uuid
        shutil.rmtree(root, ignore_errors=True)
        gc.unfreeze()
        if gc_was_enabled:
            gc.enable()
    if state['skip']:
        res.label('skipped:' + state['skip'])
        res.violations.clear()
        return res
    res.nontrivial = bool(state['nontrivial'])
    return res


def _errs(loop):
    return [(e.get('exc_type'), e.get('task')) for e in loop.errors][:3]


def _dname(d):
    return 'none' if d is None else '/'.join(CAND[d])


def _dmode(m, d):
    if d is None or d not in m.shared:
        return ''
    mode, users = m.shared[d]
    return f'({MODES[mode]}' + (f' users={_names(users)}' if mode == 2 else '') + ')'


def _names(us):
    return sorted(USERS[u] for u in us)


def run_shard(ctx):
    n = 500 if ctx.tier == 'quick' else 12000
    # half of the shards avoid the trigger of the moved-item finding by construction (every add/remove of a
    # directory is followed by a full scan) so that the space behind it is explored undisturbed
    ctx.explore(case_strategy(avoid=(ctx.shard % 2 == 1)), n)


MANIFEST_ENTRY = {
    'technique': 'property-based testing (Hypothesis): generated share/friend/block configurations and operation '
                 'histories against a real SoulSeekClient on a virtual-time loop with in-memory TCP, scripted remote '
                 'users, reference entitlement model as oracle',
    'level_text': 'Generated-history exploration of the whole client: every search / shares / directory reply and '
                  'every upload created, served, aborted or re-queued is compared with an entitlement reference '
                  'computed from the harness\' own model of shared directories, friends, block flags and excluded '
                  'phrases; reconciliation is checked after each settle across the 1 s user tick and the transfer '
                  'management cycle.',
    'level_note': 'Trusted base: virtual loop, in-memory TCP (latency 1 ms), simulated server and scripted peers, the '
                  'reference model in checks/c08.py. Sampled histories (<=12 operations, 3 users, 8 candidate '
                  'directories, 11 files); half of the shards force a full scan after every directory add/remove.',
}

def _case(dirs, ops, friends=(), blocked=(), phrases=(), behav=(0, 0, 0)):
    return {'dirs': [list(d) for d in dirs], 'friends': list(friends), 'blocked': [list(b) for b in blocked],
            'phrases': list(phrases), 'behav': list(behav), 'limit': 0, 'slots': 2, 'avoid': False, 'ops': list(ops)}


# one deterministic minimal history per genuine-defect kind found on the snapshot
KNOWN_REPLAYS = {
    # server excluded "BAR"; "bar" query from ua still returns "Foo Bar.txt" (phrase is compared case-sensitively)
    'C08/search-reply-contains-excluded-phrase:phrase-not-lower-case': _case(
        [[0, 0, []]], [{'t': 'search', 'u': 0, 'c': 0, 'q': 3}], phrases=['BAR']),
    # A shared with everyone and scanned; A/in added as friends-only (not rescanned): items moved to the new
    # directory keep referring to A, so strangers still see and may download them
    'C08/moved-item-keeps-old-directory:search-lists-locked-as-visible': _case(
        [[0, 0, []]], [{'t': 'adddir', 'd': 1, 'mode': 1, 'users': [], 'scan': 0},
                       {'t': 'search', 'u': 0, 'c': 0, 'q': 0}]),
    'C08/moved-item-keeps-old-directory:upload-created-not-permitted:queue:locked': _case(
        [[0, 0, []]], [{'t': 'adddir', 'd': 1, 'mode': 1, 'users': [], 'scan': 0},
                       {'t': 'queue', 'u': 0, 'f': 2, 'via': 0, 'var': 0}]),
    # A friends-only, A/in everyone; stranger ua downloads from A/in (peer never answers: INITIALIZING); A/in is
    # removed: its items go back to A but keep referring to the removed everyone-directory -> never aborted
    'C08/moved-item-keeps-old-directory:unpermitted-upload-not-aborted:locked': _case(
        [[0, 1, []], [1, 0, []]], [{'t': 'queue', 'u': 0, 'f': 2, 'via': 1, 'var': 0},
                                   {'t': 'rmdir', 'd': 1, 'scan': 0}, {'t': 'adv', 'dt': 3}], behav=(2, 0, 0)),
    # A friends-only, ua is no friend: the directory contents reply lists A's files as ordinary files
    'C08/directory-reply-lists-locked-file': _case(
        [[0, 1, []]], [{'t': 'dirreq', 'u': 0, 'd': 0, 'via': 0}]),
}
