"""C07 — a search over the shares returns exactly the files that match the query (DESIGN §3 C07)."""
from __future__ import annotations

import asyncio
import gc
import os
import shutil
import tempfile
import types

from hypothesis import strategies as st

from vfw import simloop
from vfw.runner import CaseResult

PROPERTY = 'C07'
LEVEL = 'exploration'
RULE = (
    "Case = a directory skeleton (<=6 directories, <=3 levels, chains favoured) and <=30 files created in a real temp "
    "directory, names built from a small vocabulary (foo/zoo/oo, metal/petal/etal, don't, accents, Cyrillic, CJK, "
    "digits; so one suffix is shared by several words) joined by the separators space _ - . ( ) [ ] ' & in random "
    "case; in 40% of the cases two directories (siblings, also below a common directory, or one nested in the "
    "other) hold 'twins': files with the same relative sub-path and name and the same modification time (an album "
    "copied with the time stamps preserved; now and then without, as control), in three quarters of them both "
    "directories are shared and scanned first, and two thirds of the queries aim at a twin; a history of <=8 operations (add / remove / update "
    "mode / scan one / scan all / create, touch, delete, rename a file on disk, copy a file into another directory "
    "with its time stamp / add a directory nested in or enclosing a shared one / remove the outer or inner one of "
    "two nested shares / share a removed directory again; spellings with trailing slash and '/./'); two environment "
    "choices: 'the cyclic garbage collector ran after each removal' (bit) and explicit collector runs inside the "
    "history (both are real executions, the collector is otherwise off during a case); in 30% of the cases 1..4 "
    "files vanish from disk after the history without a rescan; then 1..6 queries of 1..4 "
    "terms (include, -exclude, *wildcard; whole words, suffixes, inner substrings, punctuated spans cut out of real "
    "paths incl. the backslash, spans with one punctuation character changed, foreign words; random case; optional "
    "username) with max_results 1..100. One drawn integer seeds a deterministic builder; in half of the cases "
    "wildcards whose suffix ends two different words are avoided and in half the collector runs after removals, so "
    "the space behind the two known defects is explored too. Oracle: a reference model of the share set (which "
    "files each scan saw, documented re-parenting on nested add/remove) and a scanning matcher written from "
    "docs/source/SOULSEEK.rst 'Query rules' (split on whitespace; term occurrence preceded by start/non-word "
    "character -- not required for wildcards -- and followed by end/non-word character; word character = "
    "str.isalnum; case-insensitive; no include and no wildcard term => empty). Files whose status is the same on "
    "disk and in the last scan of their directory MUST be returned iff they match; files that differ between disk "
    "and last scan, or whose path relative to the shared directory changed by re-parenting since their scan, MAY be "
    "returned if they match under one reading. Result: no duplicates, <= max_results, superset of MUST when below "
    "the cap. Every query is also delivered as a FileSearch message to a real SearchManager: the recorded "
    "PeerSearchReply (results + locked results) holds no duplicate, nothing outside MAY, nothing that is not on "
    "disk, all of MUST when the recorded result_count is below the cap, and at least result_count minus the "
    "vanished candidates. After every operation: each indexed file appears once, in the innermost shared directory, and the "
    "index equals the model; after every full scan additionally the index equals the shared files on disk and "
    "get_stats() and the SharedFoldersFiles message sent by scan() == (distinct directories holding an indexed file, "
    "indexed files). Non-trivial = some query has a "
    "non-empty MUST set and (contains a wildcard, exclude or punctuated term, or the MUST set holds two twins, or "
    "the history has a nested/enclosing add or a removal next to another shared directory); distinct = distinct "
    "case document."
)
ASSUMPTIONS = [
    "the temp file system (/dev/shm if writable, else the default temp dir) is case-sensitive and stores names "
    "without Unicode normalisation",
    "alphabet: alphanumeric characters whose lower()/upper() are single code points and round-trip, plus (35% of the "
    "cases) sharp s and its capital, sigma / final sigma / capital sigma, long s, the fi ligature and a few Greek "
    "letters, where 'case-insensitively' has three readings (character-wise IGNORECASE equality, that AND equality "
    "of str.lower() words = what the pinned tree does, full case folding): a file MUST be returned when the "
    "pinned-tree reading and full case folding both say so and MAY be returned when the character-wise or the "
    "case-folding reading says so; the character table is validated against the standard re module at import. "
    "Dotted capital I and the Kelvin sign stay excluded",
    "the reply a peer gets is observed through a real SearchManager (FileSearch message on the event bus, recorded "
    "PeerSearchReply); files that cannot be stat-ed are omitted from it (documented in convert_items_to_file_data); "
    "when the query was capped (result_count == max_results) only the length of the reply is bounded from below",
    "term syntax and matching algorithm as written in docs/source/SOULSEEK.rst (Searching / Query rules) and the "
    "docstrings of SharesManager.add_shared_directory / remove_shared_directory / query",
    "the library can only know the disk as of the last scan of a directory: files created, deleted or renamed "
    "after it are neither required nor forbidden in results until the directory is rescanned",
    "results are identified by SharedItem.get_absolute_path(); the harness keeps strings only and yields to the "
    "loop once after every library call (a scan result stays referenced by the running loop handle until then)",
    "which files are returned when more than max_results match is left free (set iteration order)",
    "garbage collection timing is an environment choice: a query issued before the collector has run after a "
    "removal is a legitimate execution (CPython promotes long-lived items to the oldest generation, which is "
    "collected rarely)",
]
BUDGET_S = {'quick': 120, 'thorough': 1500}

# ---------------------------------------------------------------------------
# alphabet

SEPS = " _-.()[]'&"
_LOWER = "abcdefghijklmnopqrstuvwxyz" + "0123456789" + "éàüïñøç" + "джя" + "片仮名日本"
ALNUM = set(_LOWER) | {c.upper() for c in _LOWER}
for _c in ALNUM:
    assert _c.isalnum() and len(_c.lower()) == 1 and len(_c.upper()) == 1, _c
    assert _c.lower().upper().lower() == _c.lower() and _c.upper().lower().upper() == _c.upper(), _c
# characters whose full case folding differs from their lower case, their case partners and the spellings they fold
# to (sharp s / ss, final sigma / sigma, long s / s, fi ligature / fi) plus a few plain Greek letters.  Dotted capital
# I stays excluded: its lower case is two code points, the second a combining mark that splits the word.
_GREEK = "οδυεαιφ"
FOLD_CHARS = set("ßẞςσΣſﬁ") | set(_GREEK) | {c.upper() for c in _GREEK}
for _c in FOLD_CHARS:
    assert _c.isalnum() and len(_c.lower()) == 1, _c
NAME_CHARS = ALNUM | FOLD_CHARS | set(SEPS)
TERM_CHARS = (NAME_CHARS - {' '}) | {'\\', '/', ','}

VOCAB = [
    'foo', 'zoo', 'boo', 'oo', 'o', 'bar', 'ar', 'car', 'metal', 'petal', 'etal', 'tal', 'song', 'son', 'on', 'don',
    't', 'isn', 'mp3', 'p3', '3', 'flac', 'lac', '01', '1', '2001', '001', 'été', 'té', 'naïve', 'ïve', 've',
    '片仮名', '仮名', '名', '日本', '本', 'дом', 'ом', 'album', 'bum', 'live', 'ive', 'x', 'simple', 'band', 'and',
]
# used in 35% of the cases, next to VOCAB
FOLD_VOCAB = [
    'straße', 'strasse', 'aße', 'asse', 'große', 'grosse', 'GROẞE', 'maß', 'mass', 'ß', 'ss', 's',
    'σισυφος', 'συφος', 'συφοσ', 'ος', 'οσ', 'σ', 'ς', 'οδυσσεας', 'δυσσεασ', 'σεας',
    'waſſer', 'wasser', 'ſer', 'ſ', 'ﬁle', 'file', 'ﬁ', 'fi', 'le',
]
EXTS = ['', '', '.mp3', '.mp3', '.flac', '.txt', '.MP3']


def _case_variant(word, how):
    how %= 5
    if how == 4:
        return word
    if how == 0:
        return word.lower()
    if how == 1:
        return word.upper()
    if how == 2:
        return word[:1].upper() + word[1:].lower()
    return ''.join(c.upper() if i % 2 else c.lower() for i, c in enumerate(word))


# ---------------------------------------------------------------------------
# reference: documented query syntax and matcher (docs/source/SOULSEEK.rst, "Query rules")

def split_words(text):
    """Maximal alphanumeric runs."""
    out, cur = [], []
    for ch in text:
        if ch.isalnum():
            cur.append(ch)
        elif cur:
            out.append(''.join(cur))
            cur = []
    if cur:
        out.append(''.join(cur))
    return out


def parse_query(qstring):
    """-> (includes, excludes, wildcards) lower-cased term lists."""
    inc, exc, wild = [], [], []
    for tok in qstring.split():
        if not any(ch.isalnum() for ch in tok):
            continue   # (never generated) terms without a word character are ignored by the library
        low = tok.lower()
        if tok.startswith('*'):
            wild.append(low[1:])
        elif tok.startswith('-'):
            exc.append(low[1:])
        else:
            inc.append(low)
    return inc, exc, wild


def occurs(path_l, term_l, wildcard):
    """term occurs in path: <start or non-word char> [wildcard: 0+ word chars] term <non-word char or end>."""
    if not term_l:
        return False
    start = 0
    n = len(path_l)
    while True:
        i = path_l.find(term_l, start)
        if i < 0:
            return False
        j = i + len(term_l)
        right = j == n or not path_l[j].isalnum()
        # with a wildcard the 0+ word characters in front always reach back to a boundary
        left = wildcard or i == 0 or not path_l[i - 1].isalnum()
        if left and right:
            return True
        start = i + 1


# "case-insensitively", three readings (identical outside FOLD_CHARS):
#  regex  - character by character: two characters are equal when their (single code point) lower cases are equal
#           or are one of the pairs s/long s, sigma/final sigma (what an IGNORECASE regular expression does; the
#           table is validated against the standard re module at import, not against the library)
#  head   - regex reading AND every word of an include term (the leading word of a wildcard term: as a suffix) equals
#           a word of str.lower() of the path (str.lower() writes a capital sigma at the end of a word as final sigma)
#  folded - full case folding on both sides (sharp s = ss, fi ligature = fi, ...)
# A file MUST be returned when it matches under head and folded, MAY be returned when it matches under regex or
# folded.  head is what the pinned tree does: index keys are lower(), the matcher is IGNORECASE.
_SAME = {'ſ': 's', 'ς': 'σ'}


def fold_simple(text):
    out = []
    for ch in text:
        low = ch.lower()
        if len(low) != 1:
            low = ch
        out.append(_SAME.get(low, low))
    return ''.join(out)


def _selftest_fold():
    import re
    chars = sorted(ALNUM | FOLD_CHARS)
    for pat in sorted({c.lower() for c in chars}):
        rx = re.compile(re.escape(pat), re.IGNORECASE)
        for ch in chars:
            assert bool(rx.fullmatch(ch)) == (fold_simple(pat) == fold_simple(ch)), (pat, ch)
            assert fold_simple(ch).isalnum() and ch.casefold().isalnum()


_selftest_fold()


def _predicate(path_s, inc, exc, wild):
    return (all(occurs(path_s, t, False) for t in inc) and all(occurs(path_s, t, True) for t in wild)
            and not any(occurs(path_s, t, False) for t in exc))


def match_levels(path, parsed):
    """-> (head, regex, folded) verdicts for one query path"""
    inc, exc, wild = parsed
    regex = _predicate(fold_simple(path), [fold_simple(t) for t in inc], [fold_simple(t) for t in exc],
                       [fold_simple(t) for t in wild])
    folded = _predicate(path.casefold(), [t.casefold() for t in inc], [t.casefold() for t in exc],
                        [t.casefold() for t in wild])
    head = regex
    if head:
        words = set(split_words(path.lower()))
        for t in inc:
            head = head and all(sub in words for sub in split_words(t))
        for t in wild:
            subs = split_words(t)
            if t[:1].isalnum():
                head = head and any(w.endswith(subs[0]) for w in words)
                subs = subs[1:]
            head = head and all(sub in words for sub in subs)
    return head, regex, folded


def ref_match(path, parsed):
    """may the file be returned under some reading"""
    _, regex, folded = match_levels(path, parsed)
    return regex or folded


# ---------------------------------------------------------------------------
# strategy: one drawn integer seeds a deterministic builder (a composite strategy with ~150 draws per case costs
# 19 ms/case in Hypothesis, four times the cost of running the case; the builder is a pure function of the draw)

def _name(r, with_ext, vocab=VOCAB):
    parts = []
    if r.randrange(8) == 0:
        parts.append(r.choice(['(', '[', "'", '_', '-', '&']))
    for i in range(r.choice([1, 1, 2, 2, 3, 4])):
        if i:
            parts.append(r.choice(
                [' ', ' ', '_', '-', '.', '(', ')', '[', ']', "'", '&', ' - ', ')_-_', ' (', ') ', '. ', "' "]))
        if r.randrange(6) == 0:
            word = ''.join(r.choice('aot1é名') for _ in range(r.randint(1, 3)))
        else:
            word = r.choice(vocab)
        parts.append(_case_variant(word, r.randrange(7)))
    if r.randrange(8) == 0:
        parts.append(r.choice([')', ']', "'", '_', '&']))
    if with_ext:
        parts.append(r.choice(EXTS))
    return ''.join(parts)


def _tokens(chunk):
    """[(is_word, start, end)] of a string."""
    toks = []
    i = 0
    while i < len(chunk):
        j = i
        w = chunk[i].isalnum()
        while j < len(chunk) and chunk[j].isalnum() == w:
            j += 1
        toks.append((w, i, j))
        i = j
    return toks


_SOURCES = {
    0: ['word'] * 9 + ['punct'] * 6 + ['suffix'] * 2 + ['inner'] + ['punct-mut'] + ['foreign'],
    1: ['word'] * 10 + ['punct'] * 4 + ['suffix'] * 2 + ['punct-mut'] * 2 + ['foreign'] * 2,
    2: ['suffix'] * 8 + ['word'] * 3 + ['punct-mid'] * 4 + ['punct'] * 2 + ['punct-mut'] + ['foreign'],
}


def _term_text(r, kind, words, chunks):
    src = r.choice(_SOURCES[kind])
    text = None
    if src in ('word', 'suffix', 'inner') and words:
        w = r.choice(words)
        if src == 'word' or len(w) == 1:
            text = w
        elif src == 'suffix':
            text = w[r.randint(1, len(w) - 1):]
        else:
            a = r.randint(0, len(w) - 1)
            text = w[a:r.randint(a + 1, len(w))]
    elif src.startswith('punct') and chunks:
        chunk = r.choice(chunks)
        toks = _tokens(chunk)
        widx = [k for k, t in enumerate(toks) if t[0]]
        if widx:
            a = r.randint(0, len(widx) - 1)
            b = r.randint(a, min(len(widx) - 1, a + 2))
            ta, tb = widx[a], widx[b]
            start, end = toks[ta][1], toks[tb][2]
            if src == 'punct-mid' and toks[ta][2] - toks[ta][1] > 1:
                start = r.randint(toks[ta][1] + 1, toks[ta][2] - 1)
            elif ta > 0 and r.randrange(5) == 0:
                start = toks[ta - 1][2] - 1            # one leading punctuation character
            if tb + 1 < len(toks) and r.randrange(5) == 0:
                end = toks[tb + 1][1] + 1              # one trailing punctuation character
            text = chunk[start:end]
            if src == 'punct-mut':
                pos = [k for k, ch in enumerate(text) if not ch.isalnum()]
                if pos:
                    k = r.choice(pos)
                    text = text[:k] + r.choice(['_', '-', '.', "'", '/', '\\', ',']) + text[k + 1:]
    if not text:
        text = r.choice(['qqq', 'foox', 'xfoo', 'metals', '名名', 'fo', 'oo'])
    return _case_variant(text, r.choice([0, 0, 1, 2, 3, 4, 4]))


def _words_chunks(paths):
    """lower-cased words and whitespace-free chunks of backslash paths."""
    words, chunks = set(), set()
    for path in paths:
        for w in split_words(path):
            words.add(w.lower())
        for chunk in path.split():
            if any(ch.isalnum() for ch in chunk):
                chunks.add(chunk)
    return sorted(words), sorted(chunks)


def _is_under(d, anc):
    return len(d) > len(anc) and d[:len(anc)] == anc


def build_case(seed):
    import random
    r = random.Random(seed)
    # the two known defects are avoided by construction in half of the cases each (DESIGN §4): no wildcard whose
    # suffix ends several words / the garbage collector runs after every removal
    avoid_multi = r.randrange(2) == 0
    run_gc = r.randrange(2) == 0
    # 35% of the cases also use words with sharp s, final sigma, long s, the fi ligature and their counterparts
    vocab = VOCAB + FOLD_VOCAB * 2 if r.randrange(100) < 35 else VOCAB

    def name_(with_ext):
        return _name(r, with_ext, vocab)

    # directory skeleton: index 0 = the root
    dir_specs = []
    dirs = [()]

    def add_dir(parent, name):
        d = dirs[parent] + (name,)
        if d in dirs:
            return dirs.index(d)
        dir_specs.append([parent, name])
        dirs.append(d)
        return len(dirs) - 1

    # twins (40% of the cases): two directories A, B -- siblings, or B nested in A -- hold files with the same
    # relative sub-path and name and the same modification time (an album copied with the time stamps preserved)
    files = []
    twin_files = []
    twin_dirs = None
    if r.randrange(100) < 40:
        if r.randrange(3) == 0:                      # B nested in A (A = the root or a directory)
            a = 0 if r.randrange(2) else add_dir(0, name_(False))
            b = add_dir(a, name_(False))
        else:                                        # siblings, sometimes below a common directory
            top = 0 if r.randrange(3) else add_dir(0, name_(False))
            a = add_dir(top, name_(False))
            b = add_dir(top, name_(False))
        if a != b:
            twin_dirs = (a, b)
            sub = name_(False) if r.randrange(2) else None
            sa, sb = (add_dir(a, sub), add_dir(b, sub)) if sub and len(dirs[b]) < 3 else (a, b)
            for j in range(r.choice([1, 1, 2, 3, 4])):
                name = name_(True)
                pa, pb = (sa, sb) if r.randrange(2) else (a, b)
                twin_files.append([pa, name, j + 1])
                # now and then the copy did not preserve the time stamp (control: no twin)
                twin_files.append([pb, name, j + 1 if r.randrange(6) else j + 11])
            files.extend(twin_files)
    for _ in range(r.choice([0, 1, 2, 2, 3, 3, 4, 5, 6])):
        if len(dirs) > 6:
            break
        parent = r.randrange(len(dirs))
        if r.randrange(3) == 0:
            parent = len(dirs) - 1          # chains, so that three nested shares occur
        if len(dirs[parent]) >= 3:
            parent = 0
        add_dir(parent, name_(False))
    nrandom = r.choice([1, 2, 3, 4, 6, 8, 12, 20, 30] if not twin_files else [0, 1, 2, 3, 4, 6, 8, 12, 20])
    files.extend([r.randrange(len(dirs)), name_(True)] for _ in range(min(nrandom, 30 - len(files))))

    # history; the generator follows the set of shared directories (same index arithmetic as run_case) so that
    # nested adds and removals next to another shared directory can be aimed at
    nops = r.choice([1, 2, 3, 3, 4, 4, 5, 5, 6, 6, 7, 7, 8, 8])
    ops = []
    shared = set()
    removed = []
    force_scan = 13
    if twin_dirs and r.randrange(4):
        # share both twin directories and scan, then go on at random (fewer forced final scans: what a removal
        # or a partial scan leaves behind is the interesting state)
        first = list(twin_dirs)
        r.shuffle(first)
        for d in first:
            ops.append({'op': 'add', 'd': d, 'mode': r.randrange(3), 'sp': r.choice([0, 0, 0, 1, 2])})
            shared.add(dirs[d])
        ops.append({'op': 'scan'})
        nops = max(nops, r.choice([3, 4, 4, 5, 5, 6, 7, 8]))
        force_scan = 5
    for i in range(len(ops), nops):
        sh = sorted(shared)
        with_child = [k for k, d in enumerate(sh) if any(_is_under(s, d) for s in sh)]
        with_parent = [k for k, d in enumerate(sh) if any(_is_under(d, s) for s in sh)]
        if not sh:
            name = r.choice(['add'] * 12 + ['scan', 'create', 'delete'] + ['add-removed'] * (6 if removed else 0))
        else:
            name = r.choice(['add', 'addrel', 'addrel', 'addrel', 'addrel', 'remove', 'update', 'scan1', 'scan1',
                             'scan', 'scan', 'scan', 'create', 'touch', 'delete', 'rename', 'gc', 'copy']
                            + ['remove-parent'] * (3 if with_child else 0)
                            + ['remove-child'] * (3 if with_parent else 0)
                            + ['add-removed', 'add-removed', 'gc', 'gc'] * (1 if removed else 0))
        if i == nops - 1 and i > 0 and sh:
            name = r.choice(['scan'] * (force_scan - 3) + ['scan1'] * 3 + [name] * (20 - force_scan))
        op = {'op': name}
        if name in ('add', 'add-removed'):
            # 'add-removed': share a removed directory again (same or other spelling)
            d = r.randrange(len(dirs)) if name == 'add' else dirs.index(r.choice(removed))
            op = {'op': 'add', 'd': d, 'mode': r.randrange(3), 'sp': r.choice([0, 0, 0, 1, 2])}
            shared.add(dirs[d])
        elif name == 'addrel':
            k, j, rel = r.randrange(len(sh)), r.randrange(41), r.choice(['child', 'child', 'parent'])
            op.update(k=k, j=j, rel=rel, mode=r.randrange(3))
            base = sh[k]
            cands = [d for d in dirs if d not in shared
                     and (_is_under(base, d) if rel == 'parent' else _is_under(d, base))]
            if cands:
                shared.add(cands[j % len(cands)])
        elif name in ('remove', 'remove-parent', 'remove-child'):
            k = r.choice(with_child) if name == 'remove-parent' else \
                r.choice(with_parent) if name == 'remove-child' else r.randrange(len(sh))
            op = {'op': 'remove', 'k': k}
            shared.discard(sh[k])
            removed.append(sh[k])
        elif name == 'scan1':
            op.update(k=r.randrange(len(sh)))
        elif name == 'update':
            op.update(k=r.randrange(len(sh)), mode=r.randrange(3))
        elif name == 'create':
            op.update(d=r.randrange(len(dirs)), name=name_(True))
        elif name in ('touch', 'delete'):
            op.update(f=r.randrange(41))
        elif name == 'rename':
            op.update(f=r.randrange(41), d=r.randrange(len(dirs)), name=name_(True))
        elif name == 'copy':
            op.update(f=r.randrange(41), d=r.randrange(len(dirs)))
        ops.append(op)

    # queries: most terms are cut out of the path of one target file, so that conjunctions have matches
    all_files = [f[:2] for f in files]
    for op in ops:
        if op['op'] in ('create', 'rename'):
            all_files.append([op['d'] % len(dirs), op['name']])
    full_paths = ['\\'.join(list(dirs[d]) + [name]) for d, name in all_files]
    g_words, g_chunks = _words_chunks(full_paths)
    queries = []
    for _ in range(r.randint(1, 6)):
        d, name = r.choice(twin_files)[:2] if twin_files and r.randrange(3) else r.choice(all_files)
        t_words, t_chunks = _words_chunks([name] if r.randrange(10) < 6 else ['\\'.join(list(dirs[d]) + [name])])
        terms = []
        for i in range(r.choice([1, 1, 2, 2, 3, 4])):
            kind = r.choice([0, 0, 0, 0, 0, 2, 2, 2, 2] if i == 0 else [0, 0, 0, 1, 1, 1, 2, 2, 2])
            if kind == 1:
                pool = (g_words, g_chunks) if r.randrange(10) < 8 else (t_words, t_chunks)
            else:
                pool = (t_words, t_chunks) if r.randrange(10) < 8 else (g_words, g_chunks)
            text = _term_text(r, kind, *pool)
            if kind == 2 and avoid_multi:
                for _attempt in range(6):
                    lead = (split_words(text.lower()) or [''])[0] if text[:1].isalnum() else ''
                    if sum(1 for w in g_words if lead and w.endswith(lead)) < 2:
                        break
                    text = _term_text(r, kind, *pool)
                else:
                    kind = 0
            terms.append([kind, text])
        if r.randrange(25) == 0:
            terms = [[1, t[1]] for t in terms]       # exclude-only query (documented: returns nothing)
        r.shuffle(terms)
        queries.append({
            'terms': terms,
            'max': r.choice([1, 1, 2, 3, 5, 100, r.randint(1, 100)]),
            'user': r.randrange(3) == 0,
        })
    # 30% of the cases: some files vanish from disk after the history, before the queries (no rescan)
    vanish = [r.randrange(41) for _ in range(r.choice([1, 1, 2, 3, 4]))] if r.randrange(100) < 30 else []
    return {'dirs': dir_specs, 'files': files, 'ops': ops, 'vanish': vanish, 'queries': queries, 'gc': run_gc}


def case_strategy():
    return st.integers(0, 2 ** 48).map(build_case)


# ---------------------------------------------------------------------------
# helpers

def _valid_name(name):
    return (isinstance(name, str) and 0 < len(name) and name not in ('.', '..')
            and all(ch in NAME_CHARS for ch in name) and len(name.encode('utf-8')) <= 200)


def _int(v, default=0):
    try:
        return abs(int(v))
    except Exception:
        return default


def _innermost(shared, fdir):
    best = None
    for s in shared:
        if fdir[:len(s)] == s and (best is None or len(s) > len(best)):
            best = s
    return best


def _features(parsed, punct):
    inc, exc, wild = parsed
    f = []
    if inc:
        f.append('include')
    if wild:
        f.append('wildcard')
    if exc:
        f.append('exclude')
    if punct:
        f.append('punct')
    return '+'.join(f) or 'none'


_SETTINGS = {}


class _Recorder:
    """stands in for the Network: records what would be sent"""

    def __init__(self):
        self.peer = []
        self.server = []

    async def send_peer_messages(self, username, *messages):
        self.peer.append((username, messages))
        return []

    async def send_server_messages(self, *messages):
        self.server.extend(messages)
        return []


class _UploadInfo:
    def has_slots_free(self):
        return True

    def get_average_upload_speed(self):
        return 0.0

    def get_queue_size(self):
        return 0

_TMP_PARENT = '/dev/shm' if os.path.isdir('/dev/shm') and os.access('/dev/shm', os.W_OK) else None


class _Model:
    """What the library can know: shared directories and, per indexed file, the directory (object) whose scan saw it.

    ``zombies`` records the items that left the index while the SharedDirectory object they point to had been
    removed: such an item is kept alive by the reference cycle directory <-> items (or by re-parented items of a
    nested directory), and the term map holds items weakly, so it may still be found by a query.  The record is
    only used to give those violations a kind of their own."""

    def __init__(self):
        self.disk = set()       # file tuples (dir components..., filename)
        self.shared = {}        # dir tuple -> [mode index, epoch of the directory object]
        self.known = {}         # file tuple -> (dir tuple that scanned it, epoch of that directory object)
        self.zombies = {}       # file tuple -> set of query paths of its dropped items
        self.epoch = 0
        self.gc_after_last_zombie = True

    def owner(self, f):
        return _innermost(self.shared, f[:-1])

    def add(self, d, mode):
        self.epoch += 1
        self.shared[d] = [mode, self.epoch]

    def _drop(self, f):
        root, epoch = self.known.pop(f)
        if root not in self.shared or self.shared[root][1] != epoch:
            self.zombies.setdefault(f, set()).add('\\'.join(f[len(root):]))
            self.gc_after_last_zombie = False

    def remove(self, d):
        owned = [f for f in self.known if self.owner(f) == d]
        del self.shared[d]
        for f in owned:
            if self.owner(f) is None:
                self._drop(f)

    def scan(self, d):
        for f in [f for f in self.known if self.owner(f) == d]:
            self._drop(f)
        for f in self.disk:
            if f[:len(d)] == d and len(f) > len(d) and self.owner(f) == d:
                self.known[f] = (d, self.shared[d][1])


def run_case(case) -> CaseResult:
    res = CaseResult()
    if not isinstance(case, dict):
        return res
    from aioslsk.events import EventBus, MessageReceivedEvent, SessionInitializedEvent
    from aioslsk.exceptions import SharedDirectoryError
    from aioslsk.protocol.messages import FileSearch, Login, PeerSearchReply, SharedFoldersFiles
    from aioslsk.search.manager import SearchManager
    from aioslsk.session import Session
    from aioslsk.user.model import User
    from aioslsk.settings import CredentialsSettings, Settings
    from aioslsk.shares import manager as shares_manager_module
    from aioslsk.shares.manager import SharesManager
    from aioslsk.shares.model import DirectoryShareMode

    modes = [DirectoryShareMode.EVERYONE, DirectoryShareMode.FRIENDS, DirectoryShareMode.USERS]

    # ---- decode the case (total: everything is clamped or skipped) ----------
    dirs = [()]
    for spec in (case.get('dirs') or [])[:6]:
        try:
            parent, name = spec[0], spec[1]
        except Exception:
            continue
        if not _valid_name(name):
            continue
        parent = _int(parent) % len(dirs)
        if len(dirs[parent]) >= 3:
            parent = 0
        d = dirs[parent] + (name,)
        if d not in dirs:
            dirs.append(d)
    init_files = []
    for spec in (case.get('files') or [])[:30]:
        try:
            d, name = spec[0], spec[1]
        except Exception:
            continue
        if _valid_name(name):
            # optional third element: time-stamp slot; files with the same slot get the same modification time
            # (a copy made with the time stamps preserved)
            slot = spec[2] if isinstance(spec, (list, tuple)) and len(spec) > 2 else None
            init_files.append((dirs[_int(d) % len(dirs)] + (name,), slot))
    ops = [op for op in (case.get('ops') or []) if isinstance(op, dict)][:8]
    queries = [q for q in (case.get('queries') or []) if isinstance(q, dict)][:6]
    run_gc = bool(case.get('gc', False))

    model = _Model()
    hist = set()
    labels = set()
    state = {'clock': 1_000_000_000, 'diverged': set(), 'twin_keys': set()}
    twin_names = {}     # (file name, mtime) -> files created with that name and time stamp

    root = os.path.realpath(tempfile.mkdtemp(prefix='vfw-c07-', dir=_TMP_PARENT))

    def apath(t):
        return os.path.normpath(os.path.join(root, *t))

    def to_tuple(abs_path):
        rel = os.path.relpath(abs_path, root)
        if rel == '.':
            return ()
        if rel.startswith('..'):
            return None
        return tuple(rel.split(os.sep))

    def stamp(path):
        state['clock'] += 7
        os.utime(path, (state['clock'], state['clock']))

    def create_file(t, slot=None):
        """Create an empty file unless something is in the way; returns True if created."""
        if t in model.disk or t in dirs or os.path.lexists(apath(t)):
            return False
        with open(apath(t), 'w'):
            pass
        if slot is None:
            stamp(apath(t))
        else:
            mtime = 900_000_000 + (_int(slot) % 50) * 1000
            os.utime(apath(t), (mtime, mtime))
            twin_names.setdefault((t[-1], mtime), []).append(t)
        model.disk.add(t)
        return True

    def collect():
        gc.collect()
        model.gc_after_last_zombie = True

    gc_was_enabled = gc.isenabled()
    gc.disable()     # the collector runs only where the case says so (deterministic either way)
    gc.freeze()
    saved_uuid = shares_manager_module.uuid
    shares_manager_module.uuid = types.SimpleNamespace(getnode=lambda: 0x0123456789AB)
    try:
        for d in dirs[1:]:
            os.makedirs(apath(d), exist_ok=True)
        for t, slot in init_files:
            create_file(t, slot)

        async def main(loop):
            settings = _SETTINGS.get('s')
            if settings is None:
                # one Settings object per process (building it costs 2 ms); only max_results is ever changed
                settings = _SETTINGS['s'] = Settings(credentials=CredentialsSettings(username='me', password='pw'))
            # the reply a searching peer gets: real SearchManager on the same event bus, the network is a recorder
            net = _Recorder()
            event_bus = EventBus()
            manager = SharesManager(settings, event_bus, net)
            searches = SearchManager(settings, event_bus, manager, _UploadInfo(), net)
            await event_bus.emit(SessionInitializedEvent(
                Session(user=User('me'), ip_address='127.0.0.1', greeting='', client_version=157, minor_version=100),
                Login.Response(success=True, greeting='', ip='127.0.0.1')))
            net.server.clear()

            def lib_index():
                """[(shared dir tuple, [file tuples])] read from the library, as strings only."""
                out = []
                for sd in manager.shared_directories:
                    out.append((to_tuple(sd.absolute_path),
                                sorted((to_tuple(os.path.normpath(it.get_absolute_path())) or ('?',))
                                       for it in sd.items)))
                return out

            def check_index(after, full_scan):
                index = lib_index()
                lib_dirs = sorted((d for d, _ in index), key=repr)
                if lib_dirs != sorted(model.shared, key=repr):
                    res.violate(f'C07/shared-directories-differ:after-{after}',
                                f'library={lib_dirs} model={sorted(model.shared)}')
                    return
                seen = {}
                for d, items in index:
                    for f in items:
                        seen.setdefault(f, []).append(d)
                for f, owners in sorted(seen.items()):
                    if len(owners) > 1:
                        res.violate(f'C07/index-duplicate:after-{after}',
                                    f'file {f} is indexed {len(owners)} times, under {owners}')
                        state['diverged'].add(f)
                    inner = _innermost(model.shared, f[:-1])
                    if any(o != inner for o in owners):
                        res.violate(f'C07/index-not-innermost:after-{after}',
                                    f'file {f} is indexed under {owners}, innermost shared directory is {inner}')
                        state['diverged'].add(f)
                lib_files = set(seen)
                missing = sorted(set(model.known) - lib_files - state['diverged'])
                extra = sorted(lib_files - set(model.known) - state['diverged'])
                if missing:
                    res.violate(f'C07/index-missing:after-{after}',
                                f'files the library should have indexed but has not: {missing[:4]} '
                                f'(shared={sorted(model.shared)})')
                if extra:
                    res.violate(f'C07/index-extra:after-{after}',
                                f'files indexed although their directory was removed or rescanned without them: '
                                f'{extra[:4]} (shared={sorted(model.shared)})')
                state['diverged'].update(missing, extra)
                if full_scan:
                    on_disk = {f for f in model.disk if model.owner(f) is not None}
                    if set(model.known) != on_disk:
                        raise AssertionError('harness: model.known != shared files on disk after a full scan')
                    folders, nfiles = manager.get_stats()
                    exp_files = sum(len(items) for _, items in index)
                    exp_folders = len({f[:-1] for f in lib_files})
                    if nfiles != exp_files:
                        res.violate('C07/stats-files', f'get_stats() files={nfiles}, index holds {exp_files}')
                    if folders != exp_folders:
                        res.violate('C07/stats-folders',
                                    f'get_stats() folders={folders}, index holds files in {exp_folders} directories')
                    # the counts reported to the server at the end of scan()
                    reports = [m for m in net.server if isinstance(m, SharedFoldersFiles.Request)]
                    if not reports:
                        res.violate('C07/stats-not-reported', 'scan() sent no SharedFoldersFiles message')
                    elif (reports[-1].shared_folder_count, reports[-1].shared_file_count) != (exp_folders, exp_files):
                        res.violate('C07/stats-reported',
                                    f'reported to the server: folders={reports[-1].shared_folder_count} '
                                    f'files={reports[-1].shared_file_count}, index holds {exp_folders}/{exp_files}')
                net.server.clear()

            def note_twins():
                """indexed files of different shared directories with the same relative path and time stamp"""
                groups = {}
                for f, (scan_root, _) in model.known.items():
                    if f in model.disk:
                        groups.setdefault((f[len(scan_root):], os.stat(apath(f)).st_mtime), []).append(f)
                for key, members in groups.items():
                    if len(members) > 1:
                        state['twin_keys'].add(key)
                return groups

            async def lib(api, fn, *a, documented=(), **kw):
                """Call the library; documented exceptions are returned, others are violations."""
                try:
                    r = fn(*a, **kw)
                    if asyncio.iscoroutine(r):
                        await r
                    return None
                except documented as exc:
                    return exc
                except Exception as exc:   # noqa: BLE001
                    res.violate(f'C07/unexpected-exception:{type(exc).__name__}@{api}', repr(exc)[:300])
                    return exc

            def spelled(d, sp):
                path = apath(d)
                sp = _int(sp) % 3
                if sp == 1:
                    return path + os.sep
                if sp == 2 and d:
                    return os.path.join(os.path.dirname(path), '.', os.path.basename(path))
                return path

            async def do_add(d, mode, sp):
                mode = _int(mode) % 3
                if d in model.shared:
                    await lib('add_shared_directory', manager.add_shared_directory, spelled(d, sp), modes[mode],
                              documented=(SharedDirectoryError,))
                    return 'add-again'
                tag = 'add'
                if any(_is_under(s, d) for s in model.shared):
                    hist.add('enclosing-add')
                    tag += '-enclosing'
                if any(_is_under(d, s) for s in model.shared):
                    hist.add('nested-add')
                    tag += '-nested'
                    if any(f[:len(d)] == d for f in model.known):
                        hist.add('nested-add-moves-items')
                exc = await lib('add_shared_directory', manager.add_shared_directory, spelled(d, sp), modes[mode],
                                users=['someone'] if mode == 2 else None)
                if exc is None:
                    model.add(d, mode)
                return tag

            for op in ops:
                name = op.get('op')
                full = False
                sh = sorted(model.shared)
                fl = sorted(model.disk)
                if name == 'add':
                    name = await do_add(dirs[_int(op.get('d')) % len(dirs)], op.get('mode'), op.get('sp'))
                elif name == 'addrel':
                    if not sh:
                        continue
                    base = sh[_int(op.get('k')) % len(sh)]
                    cands = [d for d in dirs if d not in model.shared
                             and (_is_under(base, d) if op.get('rel') == 'parent' else _is_under(d, base))]
                    if not cands:
                        continue
                    name = await do_add(cands[_int(op.get('j')) % len(cands)], op.get('mode'), 0)
                elif name == 'remove':
                    if not sh:
                        await lib('remove_shared_directory', manager.remove_shared_directory, apath(()),
                                  documented=(SharedDirectoryError,))
                        continue
                    d = sh[_int(op.get('k')) % len(sh)]
                    if any(_is_under(d, s) for s in sh):
                        name = 'remove-nested'
                    elif any(_is_under(s, d) for s in sh):
                        name = 'remove-enclosing'
                    else:
                        name = 'remove-top'
                    hist.add(name)
                    exc = await lib('remove_shared_directory', manager.remove_shared_directory, apath(d))
                    if exc is None:
                        model.remove(d)
                elif name == 'update':
                    if not sh:
                        continue
                    d = sh[_int(op.get('k')) % len(sh)]
                    mode = _int(op.get('mode')) % 3
                    exc = await lib('update_shared_directory', manager.update_shared_directory, apath(d),
                                    share_mode=modes[mode], users=['someone'])
                    if exc is None:
                        model.shared[d][0] = mode
                elif name == 'scan1':
                    if not sh:
                        continue
                    d = sh[_int(op.get('k')) % len(sh)]
                    exc = await lib('scan_directory_files', lambda: manager.scan_directory_files(
                        manager.get_shared_directory(apath(d))))
                    if exc is None:
                        model.scan(d)
                    if 'disk-change' in hist:
                        hist.add('rescan-after-disk-change')
                elif name == 'scan':
                    exc = await lib('scan', manager.scan)
                    if exc is None:
                        for d in sh:
                            model.scan(d)
                        full = True
                    if 'disk-change' in hist:
                        hist.add('rescan-after-disk-change')
                elif name == 'gc':
                    await simloop.step(1)
                    collect()
                    hist.add('gc')
                    continue
                elif name == 'create':
                    d = dirs[_int(op.get('d')) % len(dirs)]
                    if _valid_name(op.get('name')) and create_file(d + (op.get('name'),), op.get('slot')):
                        hist.add('disk-change')
                    continue
                elif name == 'copy':
                    # cp -p: same file name in another directory, time stamp preserved
                    if fl:
                        f = fl[_int(op.get('f')) % len(fl)]
                        t = dirs[_int(op.get('d')) % len(dirs)] + (f[-1],)
                        if t not in model.disk and t not in dirs and not os.path.lexists(apath(t)):
                            mtime = os.stat(apath(f)).st_mtime
                            with open(apath(t), 'w'):
                                pass
                            os.utime(apath(t), (mtime, mtime))
                            model.disk.add(t)
                            twin_names.setdefault((f[-1], mtime), [f]).append(t)
                            hist.add('disk-change')
                            hist.add('copy-with-timestamp')
                    continue
                elif name == 'touch':
                    if fl:
                        stamp(apath(fl[_int(op.get('f')) % len(fl)]))
                        hist.add('disk-change')
                    continue
                elif name == 'delete':
                    if fl:
                        f = fl[_int(op.get('f')) % len(fl)]
                        os.unlink(apath(f))
                        model.disk.discard(f)
                        hist.add('disk-change')
                    continue
                elif name == 'rename':
                    if fl and _valid_name(op.get('name')):
                        f = fl[_int(op.get('f')) % len(fl)]
                        t = dirs[_int(op.get('d')) % len(dirs)] + (op.get('name'),)
                        if t not in model.disk and t not in dirs and not os.path.lexists(apath(t)):
                            os.rename(apath(f), apath(t))
                            model.disk.discard(f)
                            model.disk.add(t)
                            hist.add('disk-change')
                    continue
                else:
                    continue
                # leave the task step that was woken by the executor future: the running loop handle still holds
                # that future (and the set of scanned items) until the driver yields once
                await simloop.step(1)
                if run_gc and name.startswith('remove'):
                    collect()
                check_index(name, full)
                note_twins()

            await simloop.step(1)
            if run_gc:
                collect()

            # files that vanish from disk between the last operation and the queries (no rescan)
            for v in (case.get('vanish') or [])[:4]:
                fl = sorted(model.disk)
                if fl:
                    f = fl[_int(v) % len(fl)]
                    os.unlink(apath(f))
                    model.disk.discard(f)
                    if f in model.known:
                        hist.add('indexed-file-vanished-before-query')

            # remote path (as sent to peers) -> file, for everything in the index
            remote = {}
            for sd in manager.shared_directories:
                for it in sd.items:
                    remote.setdefault(it.get_remote_path(), set()).add(
                        to_tuple(os.path.normpath(it.get_absolute_path())) or ('?',))
            it = sd = None

            # ---- queries ---------------------------------------------------------
            nontrivial = False
            ticket = 0
            # words the library has seen: paths relative to the scanning directory, incl. dropped items
            indexed_words = set()
            for f, (scan_root, _) in model.known.items():
                indexed_words.update(split_words('/'.join(f[len(scan_root):]).lower()))
            for paths in model.zombies.values():
                for path in paths:
                    indexed_words.update(split_words(path.lower()))
            history_nested = bool(hist & {'nested-add', 'enclosing-add', 'remove-nested', 'remove-enclosing'})
            gc_tag = 'after-gc' if model.gc_after_last_zombie else 'before-gc'
            twin_groups = note_twins()
            twin_of = {f: key for key, members in twin_groups.items() if len(members) > 1 for f in members}
            if twin_of:
                labels.add('h:twins-indexed')
            if state['twin_keys']:
                labels.add('h:twins-indexed-at-some-point')

            for q in queries:
                terms = []
                for t in (q.get('terms') or [])[:4]:
                    try:
                        kind, text = _int(t[0]) % 3, t[1]
                    except Exception:
                        continue
                    if not isinstance(text, str) or len(text) > 60 or any(ch not in TERM_CHARS for ch in text) \
                            or not any(ch.isalnum() for ch in text):
                        continue   # outside the generated domain (a term has at least one word character)
                    terms.append(('', '-', '*')[kind] + text)
                if not terms:
                    continue
                qstring = ' '.join(terms)
                parsed = parse_query(qstring)
                inc, exc_terms, wild = parsed
                punct = any(not ch.isalnum() for t in inc + exc_terms + wild for ch in t)
                has_inclusion = bool(inc or wild)
                max_results = max(1, min(100, _int(q.get('max', 100), 100)))
                username = 'stranger' if q.get('user') else None

                must, may = set(), set()
                if has_inclusion:
                    for f in set(model.known) | {f for f in model.disk if model.owner(f) is not None}:
                        owner = model.owner(f)
                        readings = {'\\'.join(f[len(owner):])}
                        if f in model.known:
                            readings.add('\\'.join(f[len(model.known[f][0]):]))
                        levels = [match_levels(p, parsed) for p in sorted(readings)]
                        if any(regex or folded for _, regex, folded in levels):
                            may.add(f)
                            if all(head and folded for head, _, folded in levels) and f in model.known \
                                    and f in model.disk and f not in state['diverged']:
                                must.add(f)
                    may |= state['diverged']     # already reported at index level: free here

                settings.searches.receive.max_results = max_results
                got = None
                try:
                    visible, locked = manager.query(qstring, username=username)
                    got = [to_tuple(os.path.normpath(it.get_absolute_path())) or ('?',) for it in visible + locked]
                    del visible, locked
                except Exception as exc:   # noqa: BLE001
                    res.violate(f'C07/unexpected-exception:{type(exc).__name__}@query', f'{qstring!r}: {exc!r}'[:300])
                if got is None:
                    continue

                feat = _features(parsed, punct)
                fold_sensitive = any(t.casefold() != t or fold_simple(t) != t for t in inc + exc_terms + wild)
                if fold_sensitive:
                    feat = 'fold-sensitive-term'      # one kind: lower case, IGNORECASE and case folding disagree
                    labels.add('q:fold-sensitive-term')
                flagged = set()
                ctx = (f'query={qstring!r} max_results={max_results} shared={sorted(model.shared)} '
                       f'gc_after_remove={run_gc}')
                got_set = set(got)

                def zombie_matches(f):
                    return f in model.zombies and any(ref_match(p, parsed) for p in model.zombies[f])

                if len(got) != len(got_set):
                    dup = sorted(f for f in got_set if got.count(f) > 1)
                    if has_inclusion and all(zombie_matches(f) for f in dup):
                        kind = 'C07/stale-term-map-entry:duplicate:' + gc_tag
                    else:
                        kind = 'C07/query-duplicate'
                    res.violate(kind, f'{dup[:3]} returned more than once; {ctx}')
                if len(got) > max_results:
                    res.violate('C07/query-over-cap', f'{len(got)} results; {ctx}')
                for f in sorted(got_set - may):
                    if not has_inclusion:
                        kind = 'C07/query-extra:no-inclusion-term'
                    elif zombie_matches(f):
                        # an item that left the index when/after its SharedDirectory object was removed
                        kind = 'C07/stale-term-map-entry:extra:' + gc_tag
                    elif f in model.known or (f in model.disk and model.owner(f) is not None):
                        kind = f'C07/query-extra:not-matching:{feat}'
                    elif model.owner(f) is not None:
                        kind = 'C07/query-extra:not-on-disk-at-last-scan'
                    else:
                        kind = 'C07/query-extra:not-shared'
                    res.violate(kind, f'returned {f}; {ctx}')
                    flagged.add(f)
                if len(got) < max_results:
                    for f in sorted(must - got_set):
                        flagged.add(f)
                        kind = f'C07/query-missing:{feat}'
                        scan_root = model.known[f][0]
                        fwords = set(split_words('/'.join(f[len(scan_root):]).lower()))
                        if fold_sensitive:
                            pass
                        elif f in model.zombies and '\\'.join(f[len(scan_root):]) in model.zombies[f] \
                                and model.gc_after_last_zombie:
                            # an equal item object of the removed directory was still in the weak term map when
                            # the file was scanned again; it shadowed the new item and has been collected since
                            kind = 'C07/stale-term-map-entry:missing:after-gc'
                        for t in wild if not fold_sensitive else ():
                            lead = split_words(t)[0] if t[:1].isalnum() else ''
                            matching = {w for w in indexed_words if lead and w.endswith(lead)}
                            if len(matching) >= 2 and not matching <= fwords:
                                kind = 'C07/query-missing:wildcard-suffix-of-several-words'
                        if not fold_sensitive and f in model.disk and \
                                (f[len(scan_root):], os.stat(apath(f)).st_mtime) in state['twin_keys']:
                            # another shared directory holds (or held) a file with the same relative path and the
                            # same modification time: the two items are confused with each other
                            kind = 'C07/query-missing:same-relative-path-and-mtime-in-other-directory'
                        res.violate(kind, f'did not return {f} (path {chr(92).join(f[len(model.owner(f)):])!r}); '
                                          f'returned {sorted(got_set)[:4]}; {ctx}')

                # ---- the reply a peer gets for the same query (SearchManager -> PeerSearchReply) -------------
                ticket += 1
                net.peer.clear()
                n_received = len(searches.received_searches)
                await event_bus.emit(MessageReceivedEvent(
                    message=FileSearch.Response(username='stranger', ticket=ticket, query=qstring), connection=None))
                await simloop.step(3)
                replies = [m for _, msgs in net.peer for m in msgs if isinstance(m, PeerSearchReply.Request)]
                result_count = searches.received_searches[-1].result_count \
                    if len(searches.received_searches) > n_received else None
                if len(replies) > 1 or any(m.ticket != ticket for m in replies):
                    res.violate('C07/reply-count-or-ticket', f'{len(replies)} replies; {ctx}')
                names = [fd.filename for m in replies[:1] for fd in list(m.results) + list(m.locked_results or [])]
                if any(len(remote.get(n, ())) > 1 for n in names):
                    labels.add('q:reply-ambiguous-alias')     # two shared directories with the same alias: skip
                elif result_count is None:
                    res.violate('C07/reply-no-search-recorded', f'the search was not processed; {ctx}')
                else:
                    unknown = [n for n in names if n not in remote]
                    rfiles = [next(iter(remote[n])) for n in names if n in remote]
                    rset = set(rfiles)
                    vanished = {f for f in may if f not in model.disk}
                    if unknown:
                        res.violate('C07/reply-extra:not-indexed', f'{unknown[:3]} in the reply; {ctx}')
                    if len(rfiles) != len(rset):
                        res.violate('C07/reply-duplicate', f'{sorted(f for f in rset if rfiles.count(f) > 1)[:3]}; {ctx}')
                    if len(names) > max_results:
                        res.violate('C07/reply-over-cap', f'{len(names)} files; {ctx}')
                    for f in sorted(rset - may - flagged):
                        res.violate(f'C07/reply-extra:not-matching:{feat}', f'reply holds {f}; {ctx}')
                    for f in sorted((rset & may) - model.disk):
                        res.violate('C07/reply-extra:not-on-disk', f'reply holds {f}; {ctx}')
                    why = 'with-vanished-file-in-results' if vanished else feat
                    if result_count < max_results:
                        # nothing was capped: every file that matches, is indexed and exists is in the reply
                        for f in sorted(must - rset - flagged):     # flagged: already reported for query()
                            res.violate(f'C07/reply-missing:{why}',
                                        f'reply lacks {f}; reply={sorted(rset)[:4]} result_count={result_count} '
                                        f'vanished={sorted(vanished)[:3]}; {ctx}')
                    if len(names) < result_count - len(vanished):
                        res.violate(f'C07/reply-shorter-than-results-on-disk:{why}',
                                    f'{result_count} results, at most {len(vanished)} of them not on disk, reply '
                                    f'holds {len(names)}; {ctx}')
                    if names:
                        labels.add('q:reply-nonempty')
                        if vanished:
                            labels.add('q:reply-nonempty+vanished-candidate')

                # labels / non-triviality
                twins_in_must = len({twin_of[f] for f in must if f in twin_of}) < sum(1 for f in must if f in twin_of)
                if twins_in_must:
                    labels.add('q:nonempty+twins')       # two files of one twin group have to be returned
                elif any((f[len(model.known[f][0]):], os.stat(apath(f)).st_mtime) in state['twin_keys']
                         for f in must):
                    labels.add('q:nonempty+former-twin')  # its twin has left the index (removal, rescan)
                if must:
                    labels.add('q:nonempty')
                    if wild or exc_terms or punct or history_nested or twins_in_must:
                        nontrivial = True
                    if wild:
                        labels.add('q:nonempty+wildcard')
                    if exc_terms:
                        labels.add('q:nonempty+exclude')
                    if punct:
                        labels.add('q:nonempty+punct')
                    if history_nested:
                        labels.add('q:nonempty+nested-history')
                    if len(must) > max_results:
                        labels.add('q:capped')
                if may - must:
                    labels.add('q:has-free-files')
                for t in wild:
                    lead = split_words(t)[0] if t[:1].isalnum() else ''
                    if lead and len({w for w in indexed_words if w.endswith(lead)}) >= 2:
                        labels.add('q:wildcard-suffix-of-several-words')
                if not has_inclusion:
                    labels.add('q:no-inclusion-term')
            return nontrivial

        nontrivial, errors = simloop.run_case_on_loop(main)
        res.nontrivial = bool(nontrivial)
        for h in sorted(hist):
            labels.add('h:' + h)
        if run_gc:
            labels.add('gc-after-remove')
        if model.zombies:
            labels.add('h:items-of-removed-directory-object')
        res.label(*sorted(labels))
        if errors:
            res.violate('C07/loop-error', str(errors[:2]))
    finally:
        shares_manager_module.uuid = saved_uuid
        shutil.rmtree(root, ignore_errors=True)
        gc.unfreeze()
        if gc_was_enabled:
            gc.enable()
    return res


def run_shard(ctx):
    n = 1500 if ctx.tier == 'quick' else 30000
    ctx.explore(case_strategy(), n)


MANIFEST_ENTRY = {
    'technique': 'property-based testing (Hypothesis): generated directory trees on a real file system, model-based '
                 'share histories, generated queries; differential against an independent scanning matcher',
    'level_text': 'Generated-input exploration of the real SharesManager on a temp directory: after every operation '
                  'the index is compared with a reference model of the shares (exactly once, innermost directory), '
                  'after every full scan with the disk, get_stats() and the counts reported to the server, and every '
                  'query result -- from query() and from the PeerSearchReply a real SearchManager sends for it -- with '
                  'a set comprehension over the model using a matcher written from the documented query rules. Sampled '
                  'trees, histories and queries; no proof.',
    'level_note': 'Trusted base: the reference model and matcher in checks/c07.py (written from the property text, '
                  'docs/source/SOULSEEK.rst "Query rules" and the SharesManager docstrings), the local file system, '
                  'the virtual loop (executor jobs run inline), Hypothesis (draws one seed per case for a '
                  'deterministic builder). The garbage collector is disabled during a case and run explicitly where '
                  'the case says so.',
}

# one deterministic case per genuine-defect kind found on the pinned tree (see scratch/fixes/C07-1.diff, C07-2.diff)
KNOWN_REPLAYS = {
    # *oo with words foo and zoo indexed: all suffix-matching words are AND-ed in the term-map prefilter
    'C07/query-missing:wildcard-suffix-of-several-words': {
        'dirs': [], 'files': [[0, 'foo 1.mp3'], [0, 'zoo 2.mp3']], 'ops': [{'op': 'add', 'd': 0}, {'op': 'scan'}],
        'queries': [{'terms': [[2, 'oo']], 'max': 100}], 'gc': True},
    # the term map is never purged, it relies on weak references; items of a removed directory form a reference
    # cycle with it and stay queryable until the cyclic collector runs
    'C07/stale-term-map-entry:extra:before-gc': {
        'dirs': [], 'files': [[0, 'x.mp3']], 'ops': [{'op': 'add', 'd': 0}, {'op': 'scan'}, {'op': 'remove', 'k': 0}],
        'queries': [{'terms': [[0, 'x']], 'max': 100}], 'gc': False},
    # ... or for good when re-parented items of a nested shared directory still point at the removed object
    'C07/stale-term-map-entry:extra:after-gc': {
        'dirs': [[0, 'a'], [1, 'b']], 'files': [[1, 'x.mp3'], [2, 'y.mp3']],
        'ops': [{'op': 'add', 'd': 1}, {'op': 'scan'}, {'op': 'add', 'd': 2}, {'op': 'remove', 'k': 0}],
        'queries': [{'terms': [[0, 'x']], 'max': 100}], 'gc': True},
    # removed, shared again under another spelling, rescanned: old and new item are both returned
    'C07/stale-term-map-entry:duplicate:before-gc': {
        'dirs': [], 'files': [[0, 'x.mp3']],
        'ops': [{'op': 'add', 'd': 0, 'sp': 0}, {'op': 'scan'}, {'op': 'remove', 'k': 0},
                {'op': 'add', 'd': 0, 'sp': 1}, {'op': 'scan'}],
        'queries': [{'terms': [[0, 'x']], 'max': 100}], 'gc': False},
    # removed, shared again (same spelling), rescanned: the new item equals the lingering one, so the weak set keeps
    # the old reference; once the collector runs the file is indexed but not searchable until the next scan
    'C07/stale-term-map-entry:missing:after-gc': {
        'dirs': [], 'files': [[0, 'x.mp3']],
        'ops': [{'op': 'add', 'd': 0}, {'op': 'scan'}, {'op': 'remove', 'k': 0}, {'op': 'add', 'd': 0},
                {'op': 'scan'}, {'op': 'gc'}],
        'queries': [{'terms': [[0, 'x']], 'max': 100}], 'gc': False},
}
