"""C12 tier 2 — SoulSeekClient.execute(command, response=True) completes with the reply that answers it."""
from __future__ import annotations

import asyncio

from hypothesis import strategies as st

from vfw import simworld
from vfw.runner import CaseResult

NAMES = ['ann', 'bob']
ROOMS = ['r1', 'r2']
TEXTS = ['hi', 'yo']
DIRS = ['music\\a', 'music\\b']

# command table: name -> (argument domains, number of "wrong" reply variants)
COMMANDS = {
    'status': ([NAMES], 1),
    'stats': ([NAMES], 1),
    'address': ([NAMES], 1),
    'join': ([ROOMS], 1),
    'leave': ([ROOMS], 1),
    'room_message': ([ROOMS, TEXTS], 3),
    'ticker': ([ROOMS, TEXTS], 3),
    'interests': ([NAMES], 1),
    'peer_info': ([NAMES], 1),
    'peer_shares': ([NAMES], 1),
    'peer_directory': ([NAMES, DIRS], 2),
}
ORDER = sorted(COMMANDS)
# run-time settings change: the application assigns other credentials (for the NEXT login) while the session of 'me'
# stays active; 'somebody' is also the user name of the near-miss echo (wrong1) of the room commands
CREDS = [None, 'me2', 'somebody', 'ann']
OWN_NAME_COMMANDS = ('room_message', 'ticker')     # expected reply carries the name of the SESSION user


@st.composite
def cmd_case(draw):
    name = draw(st.sampled_from(ORDER))
    doms, nwrong = COMMANDS[name]
    args = [draw(st.integers(0, len(d) - 1)) for d in doms]
    script = draw(st.lists(st.tuples(st.sampled_from(['correct'] + ['wrong%d' % i for i in range(nwrong)]),
                                     st.integers(1, 60)), max_size=3))
    return {'t': 'cmd', 'cmd': name, 'args': args, 'script': [list(x) for x in script],
            'timeout': draw(st.sampled_from([30, 50, 100])),
            # settings.credentials.username = <other name> before the command is executed (session unchanged)
            'creds': draw(st.sampled_from([0, 0, 1, 2, 3] if name not in OWN_NAME_COMMANDS else [0, 1, 2, 2, 3])),
            # write back pressure on the server connection: drain() (and so command.send()) returns that much later,
            # possibly after the reply was already processed
            'drain_ms': draw(st.sampled_from([0, 0, 0, 8, 20]))}


def enumerated():
    for name in ORDER:
        doms, nwrong = COMMANDS[name]
        yield {'t': 'cmd', 'cmd': name, 'args': [0] * len(doms), 'script': [['correct', 5]], 'timeout': 50}
        yield {'t': 'cmd', 'cmd': name, 'args': [0] * len(doms), 'script': [], 'timeout': 30}
        if not name.startswith('peer_'):
            yield {'t': 'cmd', 'cmd': name, 'args': [0] * len(doms), 'script': [['correct', 5]], 'timeout': 50,
                   'drain_ms': 20}
        for w in range(nwrong):
            yield {'t': 'cmd', 'cmd': name, 'args': [1] * len(doms), 'script': [['wrong%d' % w, 5], ['correct', 12]],
                   'timeout': 50}
            yield {'t': 'cmd', 'cmd': name, 'args': [0] * len(doms), 'script': [['wrong%d' % w, 5]], 'timeout': 30}
        # other credentials were stored in the settings while the session is active: the reply is still the reply
        for c in ((1, 2) if name in OWN_NAME_COMMANDS else (1,)):
            yield {'t': 'cmd', 'cmd': name, 'args': [0] * len(doms), 'script': [['correct', 5]], 'timeout': 50,
                   'creds': c}
            if name in OWN_NAME_COMMANDS:
                # the echo of somebody else's message (wrong1) comes first, then the echo of the own message
                yield {'t': 'cmd', 'cmd': name, 'args': [1] * len(doms), 'script': [['wrong1', 5], ['correct', 12]],
                       'timeout': 50, 'creds': c}
                yield {'t': 'cmd', 'cmd': name, 'args': [0] * len(doms), 'script': [['wrong1', 5]], 'timeout': 30,
                       'creds': c}


def _other(dom, v):
    return dom[(dom.index(v) + 1) % len(dom)]


def _build(name, args, request, variant, me='me'):
    """Reply message for ``request`` (what the simulated server / peer saw). ``variant``: correct | wrongN."""
    from aioslsk.protocol import messages as M
    from aioslsk.protocol.primitives import DirectoryData, UserStats
    w = None if variant == 'correct' else int(variant[5:])
    if name == 'status':
        u = args[0] if w is None else _other(NAMES, args[0])
        return M.GetUserStatus.Response(u, 2, False)
    if name == 'stats':
        u = args[0] if w is None else _other(NAMES, args[0])
        return M.GetUserStats.Response(u, UserStats(1, 2, 3, 4))
    if name == 'address':
        u = args[0] if w is None else _other(NAMES, args[0])
        return M.GetPeerAddress.Response(u, '5.6.7.8', 1234, 0, 0)
    if name == 'join':
        r = args[0] if w is None else _other(ROOMS, args[0])
        return M.JoinRoom.Response(r, [], [], [], [], [])
    if name == 'leave':
        r = args[0] if w is None else _other(ROOMS, args[0])
        return M.LeaveRoom.Response(r)
    if name == 'room_message':
        r, t, u = args[0], args[1], me
        if w == 0:
            r = _other(ROOMS, r)
        elif w == 1:
            u = 'somebody'
        elif w == 2:
            t = _other(TEXTS, t)
        return M.RoomChatMessage.Response(r, u, t)
    if name == 'ticker':
        r, t, u = args[0], args[1], me
        if w == 0:
            r = _other(ROOMS, r)
        elif w == 1:
            u = 'somebody'
        elif w == 2:
            t = _other(TEXTS, t)
        return M.RoomTickerAdded.Response(r, u, t)
    if name == 'interests':
        u = args[0] if w is None else _other(NAMES, args[0])
        return M.GetUserInterests.Response(u, ['x'], ['y'])
    if name == 'peer_info':
        return M.PeerUserInfoReply.Request('desc', False, None, 1, 0, True)
    if name == 'peer_shares':
        return M.PeerSharesReply.Request([], 0, [])
    if name == 'peer_directory':
        ticket = request.ticket if request is not None else 1
        d = args[1]
        if w == 0:
            ticket = (ticket + 1) % (2 ** 32)
        elif w == 1:
            d = _other(DIRS, d)
        return M.PeerDirectoryContentsReply.Request(ticket, d, [DirectoryData(d, [])])
    raise KeyError(name)


def _command(name, args):
    from aioslsk import commands as C
    if name == 'status':
        return C.GetUserStatusCommand(args[0])
    if name == 'stats':
        return C.GetUserStatsCommand(args[0])
    if name == 'address':
        return C.GetPeerAddressCommand(args[0])
    if name == 'join':
        return C.JoinRoomCommand(args[0])
    if name == 'leave':
        return C.LeaveRoomCommand(args[0])
    if name == 'room_message':
        return C.RoomMessageCommand(args[0], args[1])
    if name == 'ticker':
        return C.SetRoomTickerCommand(args[0], args[1])
    if name == 'interests':
        return C.GetUserInterestsCommand(args[0])
    if name == 'peer_info':
        return C.PeerGetUserInfoCommand(args[0])
    if name == 'peer_shares':
        return C.PeerGetSharesCommand(args[0])
    if name == 'peer_directory':
        return C.PeerGetDirectoryContentCommand(args[0], args[1])
    raise KeyError(name)


def _request_class(name):
    from aioslsk.protocol import messages as M
    return {'status': M.GetUserStatus.Request, 'stats': M.GetUserStats.Request, 'address': M.GetPeerAddress.Request,
            'join': M.JoinRoom.Request, 'leave': M.LeaveRoom.Request, 'room_message': M.RoomChatMessage.Request,
            'ticker': M.SetRoomTicker.Request, 'interests': M.GetUserInterests.Request,
            'peer_info': M.PeerUserInfoRequest.Request, 'peer_shares': M.PeerSharesRequest.Request,
            'peer_directory': M.PeerDirectoryContentsRequest.Request}[name]


def run_cmd_case(case, res: CaseResult):
    name = case.get('cmd')
    if name not in COMMANDS:
        return
    doms, nwrong = COMMANDS[name]
    try:
        idx = [int(a) % len(d) for a, d in zip((list(case.get('args') or []) + [0, 0])[:len(doms)], doms)]
    except Exception:
        return
    args = [d[i] for i, d in zip(idx, doms)]
    script = []
    for item in (case.get('script') or [])[:3]:
        try:
            v, at = item[0], max(1, min(200, int(item[1])))
        except Exception:
            continue
        if v == 'correct' or (isinstance(v, str) and v.startswith('wrong') and v[5:].isdigit() and int(v[5:]) < nwrong):
            script.append((v, at))
    # peer_info / peer_shares have no identifying field: a "wrong" reply can only come from the other peer
    script.sort(key=lambda s: s[1])
    # distinct arrival ticks so that order is defined
    seen = set()
    script = [s for s in script if not (s[1] in seen or seen.add(s[1]))]
    timeout = max(10, min(300, int(case.get('timeout', 50) or 50)))
    is_peer = name.startswith('peer_')
    try:
        drain = 0.0 if is_peer else max(0, min(40, int(case.get('drain_ms', 0) or 0))) / 1000.0
    except Exception:
        drain = 0.0
    try:
        creds = CREDS[int(case.get('creds', 0) or 0) % len(CREDS)]
    except Exception:
        creds = None
    # the changed setting can only matter for the commands whose expected reply names the own user
    sfx = ':after-credentials-change' if (creds and name in OWN_NAME_COMMANDS) else ''
    out = {}

    async def main(world):
        loop = world.loop
        s = simworld.mk_settings('me')
        peers = {}
        got_req = {}

        def make_on_message(pname):
            def on_message(link, msg):
                if isinstance(msg, _request_class(name)):
                    got_req.setdefault('req', (loop.time(), link, msg, pname))
            return on_message
        for pname in NAMES:
            p = world.add_peer(pname)
            p.on_message = make_on_message(pname)
            peers[pname] = p
        # the server only records the command's request; everything else keeps its default behaviour
        world.server.handlers[_request_class(name)] = (lambda srv, i, m: got_req.setdefault('req', (loop.time(), None, m, None)) and True) \
            if not is_peer else None
        if is_peer:
            world.server.handlers.pop(_request_class(name), None)
        client = await world.start_client(s)
        await asyncio.sleep(0.5)
        world.server.frames.clear()
        if drain:
            client.network.server_connection._writer.transport.drain_delay = drain
        if creds:
            # run-time settings change; the session (and what the server echoes) stays that of 'me'
            client.settings.credentials.username = creds
            out['session_user'] = client.session.user.name if client.session else None
        cmd = _command(name, args)
        t0 = loop.time()

        async def script_runner():
            # wait for the request to arrive, then play the script relative to the send time t0
            for variant, at in script:
                delay = t0 + at / 1000.0 - loop.time()
                if delay > 0:
                    await asyncio.sleep(delay)
                req = got_req.get('req')
                if req is None:
                    # request not seen yet (connection still being set up): wait for it
                    for _ in range(2000):
                        await asyncio.sleep(0.001)
                        req = got_req.get('req')
                        if req is not None:
                            break
                    if req is None:
                        return
                _, link, rmsg, pname = req
                if is_peer:
                    if variant != 'correct' and name in ('peer_info', 'peer_shares'):
                        # same message from the *other* peer
                        other = peers[_other(NAMES, args[0])]
                        olink = other.connect('P')
                        olink.send_msg(_build(name, args, rmsg, 'correct'), delay=0.002)
                        out.setdefault('sent', []).append((variant, loop.time() + 0.003))
                    else:
                        link.send_msg(_build(name, args, rmsg, variant))
                        out.setdefault('sent', []).append((variant, loop.time() + 0.001))
                else:
                    world.server.send(_build(name, args, rmsg, variant))
                    out.setdefault('sent', []).append((variant, loop.time() + 0.001))
        runner = asyncio.ensure_future(script_runner())
        try:
            result = await client.execute(cmd, response=True, timeout=timeout / 1000.0)
            out['outcome'] = ('result', loop.time() - t0, result is not None or name in ('ticker',))
        except TimeoutError:
            out['outcome'] = ('timeout', loop.time() - t0)
        except Exception as exc:
            out['outcome'] = ('error', type(exc).__name__, repr(exc)[:200])
        await asyncio.sleep(0.3)
        runner.cancel()
        out['request_seen'] = 'req' in got_req
        out['req_time'] = got_req['req'][0] - t0 if 'req' in got_req else None
        out['residue'] = len(client.network._expected_response_futures)
        out['t0'] = t0
        await client.stop()

    _, loop_errors = simworld.run_world(main)
    outcome = out.get('outcome')
    sent = [(v, t - out.get('t0', 0)) for v, t in out.get('sent', [])]
    deadline = timeout / 1000.0
    correct_times = [t for v, t in sent if v == 'correct']
    first_correct = min(correct_times) if correct_times else None
    # execute() starts its timeout only after send() returned (for peer commands that includes opening the
    # connection): the deadline lies between t0 + timeout and (arrival of the request at the remote) + timeout
    late_deadline = max(deadline, (out.get('req_time') or 0.0) + deadline) + drain
    tie = first_correct is not None and deadline - 0.0025 < first_correct < late_deadline + 0.0025
    if outcome is None:
        res.violate('C12/cmd-no-outcome:' + name, '')
    elif outcome[0] == 'error':
        res.violate(f'C12/cmd-wrong-exception:{name}:{outcome[1]}{sfx}', outcome[2])
    elif not out.get('request_seen'):
        res.violate('C12/cmd-request-not-sent:' + name, str(outcome))
    elif tie:
        res.label('cmd-tie')
    elif first_correct is not None and first_correct < deadline:
        if outcome[0] == 'timeout':
            res.violate(f'C12/cmd-reply-ignored:{name}{sfx}', f'correct reply arrived {first_correct * 1000:.1f} ms after the '
                        f'request, timeout {timeout} ms; script={sent}')
        elif outcome[1] < first_correct - 0.0015:
            res.violate(f'C12/cmd-completed-by-non-matching-reply:{name}{sfx}',
                        f'returned after {outcome[1] * 1000:.1f} ms, correct reply only at {first_correct * 1000:.1f} ms; '
                        f'script={sent}')
        elif outcome[1] > max(first_correct, drain) + 0.004:
            res.violate(f'C12/cmd-completed-late:{name}{sfx}', f'{outcome[1]} vs {first_correct} (drain {drain})')
        elif not outcome[2]:
            res.violate(f'C12/cmd-no-result:{name}{sfx}', '')
    else:
        if outcome[0] == 'result':
            res.violate(f'C12/cmd-completed-by-non-matching-reply:{name}{sfx}',
                        f'returned after {outcome[1] * 1000:.1f} ms although no matching reply arrived in time; script={sent}')
        elif not (deadline - 0.004 <= outcome[1] <= late_deadline + 0.004) and (out.get('req_time') or 0) < deadline:
            res.violate(f'C12/cmd-timeout-at-wrong-time:{name}{sfx}', f'{outcome[1]} vs {deadline}')
    if out.get('residue'):
        res.violate('C12/cmd-residue-in-pending-list:' + name, str(out['residue']))
    for e in loop_errors:
        res.violate(f'C12/cmd-loop-error:{e["exc_type"]}', str(e)[:300])
        break
    wrong_before = any(v != 'correct' for v, t in sent if first_correct is None or t < first_correct)
    res.nontrivial = bool(wrong_before)
    res.label('cmd:' + name, 'cmd-outcome:' + (outcome[0] if outcome else 'none'))
    if drain and first_correct is not None and first_correct < drain:
        res.label('cmd-reply-before-send-returned')
        res.nontrivial = True
    if wrong_before:
        res.label('cmd-near-miss-first')
    if creds:
        res.label('cmd-credentials-changed-before-execute')
        if name in OWN_NAME_COMMANDS:
            res.label('cmd-credentials-changed:own-name-in-reply')
            res.nontrivial = True


def shard_cmd(ctx):
    ctx.enumerate(enumerated())
    ctx.explore(cmd_case(), 60 if ctx.tier == 'quick' else 3000, salt=11)
