"""C09 — peer-chosen names never escape the download directory or clobber a file (DESIGN §3 C09).

This module holds the *pure* part (case documents tagged ``{"t": "pure", ...}``): remote path x strategy chain x
download-directory contents, evaluated against the real naming strategies on a real temp directory, and the
*sequence* part (``{"t": "seq", ...}``): several calculations on one SharesManager while the download directory
setting is changed in between.  The "concurrent downloads" part is a separate case family (its own tag); ``run_case`` dispatches on ``case["t"]`` and
returns an empty result for tags it does not know, ``run_shard`` calls one ``_shard_<part>`` function per part.
"""
from __future__ import annotations

import itertools
import os
import re
import shutil
import tempfile
import traceback

from hypothesis import strategies as st

from vfw.runner import CaseResult

PROPERTY = 'C09'
LEVEL = 'exploration'
RULE = (
    "Pure part (tag 'pure'). Case = remote path given as a list of [separator run, component] pairs plus a trailing "
    "separator run (components from {'..', '.', '', '@@alias', drive letters, ordinary names incl. regex "
    "metacharacters and dot files, names ending in ' (n)', 255..300-char names, non-ASCII names, short random "
    "text}; separator runs over {\\, /} of length 0..3, mixed), a chain = one of the 15 non-empty ordered sub-lists "
    "of (default, keep-directory, number-duplicates) applied with aioslsk.naming.chain_strategies or 'lib' = an "
    "untouched SharesManager.calculate_download_path (the shipped configuration), and the download directory "
    "contents created on a real temp directory before the call (files and directories named like the candidate "
    "file, like its remote parent directory, numbered variants ' (i)' with gaps / full runs up to 13, numbered "
    "variants of the empty name, near-miss decoys; optionally the download directory does not exist yet). In "
    "addition every path of up to 3 components over {'..', '.', '', '@@a', 'C:', 'dir', 'f.txt'} (joined by '\\'; "
    "2-component paths also by '/') is enumerated for every chain, with and without the target pre-existing. Oracle "
    "on the returned (dir, name): "
    "(P1, every chain) realpath(dir) is the download directory or below it; (P3, every chain) "
    "realpath(join(dir, name)) is not outside the download directory; (P2, chains containing the default strategy "
    "and 'lib') name is not '', '.', '..' and contains neither '/' nor '\\' -- together with P1 this is 'strictly "
    "inside'; (P4, chains whose last element is number-duplicates and 'lib') join(dir, name) does not exist when "
    "returned; (P5) an exception instead of a result is a violation iff the remote path is well formed (at least one "
    "non-empty component and no '.' or '..' component), otherwise the case is labelled 'rejected'; (P0, chains "
    "without keep-directory and 'lib') realpath(dir) equals the configured download directory. "
    "Sequence part (tag 'seq'): 2..4 path calculations on ONE SharesManager (chain 'lib' or a generated chain "
    "assigned to naming_strategies) while settings.shares.download is re-assigned before each step to one of three "
    "directories (sibling sharing a name prefix, nested directory), absolute or relative to the unchanged working "
    "directory, with the target optionally pre-existing; every ordered pair / A,B,A triple of directories x "
    "absolute/relative x 3 chains is enumerated. Each step is judged with P0..P5 against "
    "abspath(settings.shares.download) read at the moment of the call; a result lying in an earlier configured "
    "directory is reported as C09/previously-configured-download-directory-used. "
    "Non-trivial = the path has a '.', '..', empty, alias or drive component, or the un-numbered target already "
    "exists (pure), at least one change of the configured directory (seq); distinct = distinct (path string, "
    "chain, created contents) resp. (chain, step list)."
)
ASSUMPTIONS = [
    "P2 (regular file name) is asserted only for chains that contain DefaultNamingStrategy and for the library "
    "configuration: its docstring says it is the strategy that determines the file name from the remote path; "
    "KeepDirectoryStrategy only moves the directory and NumberDuplicateStrategy only renames an existing name, so a "
    "chain without the default strategy starts from and may return the empty name (chain_strategies initialises "
    "filename='') -- that is a caller configuration error, not something a peer controls",
    "P4 (does not exist yet) is asserted only where NumberDuplicateStrategy is the last element of the chain (nothing "
    "changes dir or name after it) and for the library configuration [default, number-duplicates] whose behaviour "
    "docs/source/USAGE.rst states ('when a file already exists a number will be added'); default and keep-directory "
    "alone are documented to ignore existing files",
    "P1 and P3 (no escape) are asserted for every chain; strictness for chains without the default strategy is not "
    "demanded because their name may legitimately be empty",
    "'The configured download directory' is abspath(settings.shares.download) at the moment the path is chosen "
    "(SharesManager.get_download_directory documents 'Absolute path of the value of the shares.download setting'; "
    "the settings model is mutable at run time, validate_assignment=True). The working directory is never changed, "
    "so a relative setting denotes one directory throughout a case. A Transfer keeps the local path chosen at its "
    "first attempt (documented: chosen once), so a retry after a change of the setting is not judged again",
    "P0 (directory equals the configured one) is asserted only for chains without KeepDirectoryStrategy: the default "
    "and number-duplicates strategies are documented to return the directory they were given",
    "An exception for the empty path, a separators-only path or a path with a '.'/'..' component is counted as "
    "'rejected' and is not a violation: refusing such a path chooses no local path at all, which is safe, and the "
    "property does not say how refusal is signalled (on the unchanged tree the only instance is an IndexError from "
    "DefaultNamingStrategy/KeepDirectoryStrategy.apply for paths without any component). For a well-formed path "
    "(>= 1 component, none of them '.' or '..') the property presupposes that a local path is chosen, so an "
    "exception there is reported as C09/unexpected-exception:<type>@<innermost aioslsk frame>",
    "Both '/' and '\\' count as separators inside the returned name on every platform (the library is "
    "cross-platform and treats both as remote separators)",
    "The download directory contains no symbolic links (they would be placed by the local user, not by a peer); "
    "remote paths contain no NUL and are valid UTF-8 text (outside the stated quantifier)",
    "Pre-existing numbered variants use indices <= 13 (entries with an index of 3+ digits are dropped from replayed "
    "documents): NumberDuplicateStrategy builds set(range(min, max+2)), so huge indices only cost memory; at most 40 "
    "entries, two levels deep",
]
BUDGET_S = {'quick': 300, 'thorough': 1800}

STRATS = ('default', 'keep', 'number')
CHAINS = [list(p) for r in (1, 2, 3) for p in itertools.permutations(STRATS, r)]   # 15 ordered sub-lists
CHAIN_CHOICES = CHAINS + ['lib']
SEP_RUNS = ['\\', '/', '\\\\', '//', '\\/', '/\\', '\\\\\\', '/\\/', '\\/\\']
_SEP_RE = re.compile(r'[\\/]+')
_DRIVE_RE = re.compile(r'[a-zA-Z]:')
MAX_PARTS = 8
# per-case scratch directories: tmpfs when the platform has one (8x cheaper create/remove than the disk behind /tmp,
# which matters at 1M cases); otherwise the default temp directory.  Nothing depends on which one is used.
_TMP_BASE = '/dev/shm' if os.path.isdir('/dev/shm') and os.access('/dev/shm', os.W_OK | os.X_OK) else None
MAX_PRE = 40

# ---------------------------------------------------------------------------
# generator

_DOTS = ['..', '..', '.', '']
# components that only *look* like dot components after whitespace trimming / normalisation (legal odd names)
_NEARDOTS = ['.. ', ' ..', '. ', ' .', ' ', '  ', '\t', '..\u00a0', '\u00a0..', '...', '.. .', '..\t']
_ALIAS = ['@@abcde', '@@x', '@@']
_DRIVE = ['C:', 'd:', 'C:x']
_DIRS = ['Music', 'album', 'My Album (2)', 'a', 'dir.d', 'tmp', 'etc']
_FILES = ['song.mp3', 'track 01.flac', 'noext', '.hidden', 'a.b.c', 'a+b.mp3', 'w[x]*.mp3', 'q(1.mp3', 'evil.txt',
          'x.y (z).mp3', '$^.mp3']
_NUMBERED = ['song (1).mp3', 'song (2)', 'song (1) (1).mp3', 'album (3)', 'noext (10)', ' (1)', 'a (0).b']
_LONG = ['L' * 251 + '.mp3', 'x' * 300, 'y' * 256, 'é' * 130 + '.ogg']
_NONASCII = ['Zoë.mp3', '漢字', '😀.flac', 'Ünï ©.mp3', 'ب.mp3']
_RANDOM = st.text(alphabet=st.characters(exclude_categories=['Cs', 'Cc'], exclude_characters='\\/'),
                  min_size=1, max_size=10)

_component = st.one_of(
    st.sampled_from(_DOTS), st.sampled_from(_DOTS), st.sampled_from(_NEARDOTS),
    st.sampled_from(_ALIAS), st.sampled_from(_DRIVE),
    st.sampled_from(_DIRS), st.sampled_from(_DIRS),
    st.sampled_from(_FILES), st.sampled_from(_FILES),
    st.sampled_from(_NUMBERED), st.sampled_from(_LONG), st.sampled_from(_NONASCII), _RANDOM,
)
_file_component = st.one_of(
    st.sampled_from(_FILES), st.sampled_from(_FILES), st.sampled_from(_NUMBERED), st.sampled_from(_NONASCII),
    st.sampled_from(_DOTS), st.sampled_from(_NEARDOTS), st.sampled_from(_LONG), st.sampled_from(_DIRS), _RANDOM,
)
_sep = st.sampled_from(SEP_RUNS[:2] * 3 + SEP_RUNS)


def _numbered(name: str, i: int) -> str:
    stem, ext = os.path.splitext(name)
    return f'{stem} ({i}){ext}'


def _own_split(path: str) -> list:
    return [p for p in _SEP_RE.split(path) if p]


@st.composite
def pure_case(draw):
    n = draw(st.sampled_from([0, 1, 1, 2, 2, 2, 3, 3, 3, 4, 5, 6]))
    comps = [draw(_component) for _ in range(max(0, n - 1))]
    if n:
        comps.append(draw(_file_component))
    parts = []
    for i, c in enumerate(comps):
        if i == 0:
            sep = draw(st.sampled_from(['', '', '', '\\', '/', '\\\\', '//', '\\/']))
        else:
            sep = draw(_sep)
        parts.append([sep, c])
    tail = draw(st.sampled_from(['', '', '', '\\', '/', '\\\\', '/\\']))
    chain = draw(st.sampled_from(CHAIN_CHOICES + ['lib', ['default', 'number'], ['default', 'keep', 'number'],
                                                  ['keep', 'default', 'number']]))
    mk = draw(st.sampled_from([True] * 15 + [False]))
    pre = []
    real = _own_split(''.join(s + c for s, c in parts) + tail)
    safe = lambda s: s not in ('', '.', '..')   # noqa: E731
    nondot = [p for p in real if safe(p)]        # what is left if the library drops dot components
    base = nondot[-1] if nondot else ''
    contained = nondot[-2] if len(nondot) > 1 else None
    if mk:
        wheres = ['']
        if contained is not None and safe(contained):
            wheres.append(contained + '/')
            kind = draw(st.sampled_from(['d', 'd', 'd', 'f', None, None]))
            if kind:
                pre.append([kind, contained])
        targets = [b for b in (base,) if safe(b)]
        if draw(st.booleans()):
            targets.append('')                       # numbered variants of the empty name: ' (1)', ...
        for tgt in targets:
            for where in wheres:
                mode = draw(st.sampled_from(['none', 'none', 'target', 'target', 'run', 'run', 'set', 'dir', 'decoy']))
                if mode == 'none':
                    continue
                if tgt and mode != 'decoy':
                    pre.append(['d' if mode == 'dir' else 'f', where + tgt])
                if mode == 'run':
                    upto = draw(st.sampled_from([1, 2, 3, 9, 10, 11, 12]))
                    idx = list(range(draw(st.sampled_from([1, 1, 1, 0, 2])), upto + 1))
                elif mode == 'set':
                    idx = sorted(draw(st.sets(st.integers(0, 13), max_size=6)))
                else:
                    idx = []
                for i in idx:
                    pre.append([draw(st.sampled_from(['f', 'f', 'f', 'd'])), where + _numbered(tgt, i)])
                if mode == 'decoy' and tgt:
                    pre.append(['f', where + _numbered(tgt, 1) + '.bak'])
                    pre.append(['f', where + 'x' + tgt])
                    pre.append(['f', where + _numbered(tgt, 1).upper()])
    return {'t': 'pure', 'parts': parts, 'tail': tail, 'chain': chain, 'pre': pre[:MAX_PRE], 'mk': mk}


def _enumerated_cases():
    """Every path of 1..3 components over a small alphabet x separators x chains x {empty dir, target exists}."""
    alpha = ['..', '.', '', '@@a', 'C:', 'dir', 'f.txt']
    for n in (1, 2, 3):
        for comps in itertools.product(alpha, repeat=n):
            for sep in ('\\', '/'):
                if sep == '/' and n != 2:
                    continue
                parts = [['' if i == 0 else sep, c] for i, c in enumerate(comps)]
                real = [c for c in comps if c]
                for chain in CHAIN_CHOICES:
                    yield {'t': 'pure', 'parts': parts, 'tail': '', 'chain': chain, 'pre': [], 'mk': True}
                    if sep == '\\' and real and real[-1] not in ('.', '..'):
                        pre = [['f', real[-1]]]
                        if len(real) > 1 and real[-2] not in ('.', '..'):
                            pre += [['d', real[-2]], ['f', real[-2] + '/' + real[-1]]]
                        yield {'t': 'pure', 'parts': parts, 'tail': '', 'chain': chain, 'pre': pre, 'mk': True}
    for chain in CHAIN_CHOICES:
        for tail in ('', '\\', '//'):
            yield {'t': 'pure', 'parts': [], 'tail': tail, 'chain': chain, 'pre': [], 'mk': True}
    # near-dot components (whitespace padded): 2-component paths dir\<near-dot>\file and a near-dot as last component
    for nd in _NEARDOTS:
        for chain in CHAIN_CHOICES:
            yield {'t': 'pure', 'parts': [['', '@@a'], ['\\', nd], ['\\', 'f.txt']], 'tail': '', 'chain': chain,
                   'pre': [], 'mk': True}
            yield {'t': 'pure', 'parts': [['', 'dir'], ['\\', nd]], 'tail': '', 'chain': chain, 'pre': [], 'mk': True}


# ---------------------------------------------------------------------------
# evaluation of one pure case

def _chain_objects(chain):
    from aioslsk import naming
    table = {'default': naming.DefaultNamingStrategy, 'keep': naming.KeepDirectoryStrategy,
             'number': naming.NumberDuplicateStrategy}
    return [table[c]() for c in chain]


def _exception_site(exc) -> str:
    """Innermost frame inside the aioslsk package: '<module>.<qualname>'."""
    site = '?'
    for frame, _ in traceback.walk_tb(exc.__traceback__):
        fn = frame.f_code.co_filename.replace('\\', '/')
        if '/aioslsk/' in fn:
            site = f"{os.path.splitext(os.path.basename(fn))[0]}.{frame.f_code.co_qualname}"
    return site


def _inside(path: str, root: str, strict: bool) -> bool:
    if path == root:
        return not strict
    return path.startswith(root.rstrip(os.sep) + os.sep)


def _sanitise(case):
    """Clamp a (possibly shrunk) document into the input domain; None = outside the domain."""
    parts = case.get('parts')
    tail = case.get('tail', '')
    chain = case.get('chain')
    pre = case.get('pre') or []
    if not isinstance(parts, list) or not isinstance(tail, str) or not isinstance(pre, list):
        return None
    path = ''
    for item in parts[:MAX_PARTS]:
        if not (isinstance(item, list) and len(item) == 2 and all(isinstance(x, str) for x in item)):
            return None
        sep, comp = item
        if sep.strip('\\/') or len(sep) > 4 or len(comp) > 400:
            return None
        path += sep + comp
    if tail.strip('\\/') or len(tail) > 4:
        return None
    path += tail
    if '\x00' in path:
        return None
    try:
        path.encode('utf-8')
    except UnicodeEncodeError:
        return None
    if chain != 'lib':
        if not isinstance(chain, list) or not chain or len(chain) > 3 or len(set(map(str, chain))) != len(chain) \
                or any(c not in STRATS for c in chain):
            return None
    entries = []
    for item in pre[:MAX_PRE]:
        if not (isinstance(item, list) and len(item) == 2 and item[0] in ('f', 'd') and isinstance(item[1], str)):
            continue
        comps = item[1].split('/')
        if not 1 <= len(comps) <= 2:
            continue
        ok = True
        for c in comps:
            try:
                if c in ('', '.', '..') or '\x00' in c or '\\' in c or len(c.encode('utf-8')) > 255:
                    ok = False
            except UnicodeEncodeError:
                ok = False
        if any(len(g) > 2 for g in re.findall(r'\((\d+)\)', item[1])):
            ok = False      # keep pre-existing indices small (see ASSUMPTIONS)
        if ok:
            entries.append((item[0], comps))
    return path, chain, entries, bool(case.get('mk', True))


def run_pure_case(case, res: CaseResult):
    dom = _sanitise(case)
    if dom is None:
        return
    path, chain, entries, mk = dom
    tmp = tempfile.mkdtemp(prefix='c09-', dir=_TMP_BASE)
    try:
        download = os.path.join(os.path.realpath(tmp), 'r', 'dl')
        created = []
        if mk:
            os.makedirs(download)
            for kind, comps in entries:
                target = os.path.join(download, *comps)
                try:
                    if os.path.lexists(target):
                        continue
                    if kind == 'd':
                        os.makedirs(target)
                    else:
                        os.makedirs(os.path.dirname(target), exist_ok=True)
                        with open(target, 'xb'):
                            pass
                    created.append(kind + ':' + '/'.join(comps))
                except OSError:
                    continue     # e.g. parent is a regular file
        else:
            os.makedirs(os.path.dirname(download))
        root = os.path.realpath(download)

        real = _own_split(path)
        usable = bool(real) and real[-1] not in ('.', '..')          # last component can serve as a file name
        chain_name = 'lib' if chain == 'lib' else '>'.join(chain)
        target_pre_exists = False
        nondot = [p for p in real if p not in ('.', '..')]
        if nondot and mk:
            cands = [os.path.join(download, nondot[-1])]
            if len(nondot) > 1:
                cands.append(os.path.join(download, nondot[-2], nondot[-1]))
            target_pre_exists = any(os.path.lexists(c) for c in cands)

        # ---- the call under test ------------------------------------
        exc = None
        try:
            if chain == 'lib':
                from aioslsk.events import EventBus
                from aioslsk.settings import CredentialsSettings, Settings
                from aioslsk.shares.manager import SharesManager
                settings = Settings(credentials=CredentialsSettings(username='me', password='pw'))
                settings.shares.download = download
                manager = SharesManager(settings, EventBus(), None)
                result = manager.calculate_download_path(path)
            else:
                from aioslsk.naming import chain_strategies
                result = chain_strategies(_chain_objects(chain), path, download)
        except Exception as e:   # noqa: BLE001 - classified below
            exc = e
            result = None

        # ---- labels / non-triviality -----------------------------------
        raw = [c for _, c in case['parts'][:MAX_PARTS]]
        feats = []
        if '..' in real:
            feats.append('has-dotdot')
        if '.' in real:
            feats.append('has-dot')
        if any(c == '' for c in raw) or re.search(r'[\\/]{2,}', path):
            feats.append('has-empty-component')
        if any(p.startswith('@@') for p in real):
            feats.append('has-alias')
        if any(_DRIVE_RE.match(p) for p in real):
            feats.append('has-drive')
        res.label('chain:' + chain_name)
        res.label(*feats)
        if any(len(p) >= 255 for p in real):
            res.label('long-name')
        if any(ord(ch) > 127 for ch in path):
            res.label('non-ascii')
        if path[:1] in ('\\', '/'):
            res.label('leading-sep')
        if path[-1:] in ('\\', '/'):
            res.label('trailing-sep')
        if '\\' in path and '/' in path:
            res.label('mixed-seps')
        if usable and re.search(r' \(\d+\)', real[-1]):
            res.label('name-ends-numbered')
        if target_pre_exists:
            res.label('target-pre-exists')
        if not usable:
            res.label('no-usable-file-name')
        if not mk:
            res.label('download-dir-missing')
        res.nontrivial = bool(feats or target_pre_exists)
        res.key = [path, chain_name, sorted(created), mk]
        _judge(res, path, chain, download, root, exc, result, created)
    finally:
        shutil.rmtree(tmp, ignore_errors=True)


def _judge(res: CaseResult, path, chain, download, root, exc, result, created, prev_roots=(), step=''):
    """Oracle P0..P5 for one path calculation. ``download`` is the absolute configured download directory at the
    moment of the call, ``root`` its realpath, ``prev_roots`` the realpaths of directories configured earlier on the
    same SharesManager (sequence cases)."""
    real = _own_split(path)
    usable = bool(real) and real[-1] not in ('.', '..')
    wellformed = bool(real) and not any(p in ('.', '..') for p in real)
    chain_name = 'lib' if chain == 'lib' else '>'.join(chain)
    has_default = chain == 'lib' or 'default' in chain
    number_last = chain == 'lib' or chain[-1] == 'number'
    no_keep = chain == 'lib' or 'keep' not in chain
    # ---- P5: exception instead of a path ------------------------------
    if exc is not None:
        if wellformed:
            res.violate(f'C09/unexpected-exception:{type(exc).__name__}@{_exception_site(exc)}',
                        f'{step}remote_path={path!r} chain={chain_name} contents={sorted(created)[:12]}: {exc!r}')
        else:
            res.label('rejected', f'rejected:{type(exc).__name__}')
        return

    if not (isinstance(result, tuple) and len(result) == 2 and all(isinstance(x, str) for x in result)) \
            or '\x00' in result[0] or '\x00' in result[1]:
        res.violate('C09/bad-return-value', f'{step}remote_path={path!r} chain={chain_name} returned {result!r}')
        return
    ldir, name = result
    ctx_txt = f'{step}remote_path={path!r} chain={chain_name} -> dir={ldir!r} name={name!r}'
    res.info = {'remote_path': path[:200], 'chain': chain_name, 'dir': os.path.relpath(ldir, download)[:200],
                'name': name[:200]}
    if ldir != download:
        res.label('directory-changed')

    # ---- P1: the directory does not leave the download directory ----------------
    ldir_real = os.path.realpath(ldir)
    dir_ok = _inside(ldir_real, root, strict=False)
    in_previous = [pr for pr in prev_roots if pr != root and _inside(ldir_real, pr, strict=False)
                   and '..' not in ldir.split(os.sep)]      # a '..' traversal is an escape, not a stale directory
    if in_previous and (not dir_ok or (no_keep and ldir_real != root)):
        # P0/P1 for a SharesManager whose setting was changed: the path still lies in a directory that was
        # configured earlier, not in the one configured at the moment the path is chosen
        res.violate('C09/previously-configured-download-directory-used',
                    ctx_txt + f' lies in the earlier download directory {in_previous[-1]!r}; configured at the '
                              f'moment of the call: {download!r}')
    elif dir_ok and no_keep and ldir_real != root:
        # P0: default / number-duplicates are documented to leave the directory alone
        res.violate('C09/directory-differs-from-configured', ctx_txt + f', download directory is {root!r}')
    elif not dir_ok:
        if not (ldir == download or ldir.startswith(download + os.sep)):
            how = 'outside-download-prefix'
        elif '..' in ldir[len(download):].split(os.sep):
            how = 'dotdot-component'
        else:
            how = 'other'
        res.violate(f'C09/escape:directory:{how}', ctx_txt + f' resolves to {os.path.realpath(ldir)!r}, '
                                                             f'download directory is {root!r}')

    # ---- P2: regular file name (chains that produce a name) -----------------------
    name_bad = None
    if name == '':
        name_bad = 'empty'
    elif name in ('.', '..'):
        name_bad = 'dot-component'
    elif '/' in name or '\\' in name or os.sep in name:
        name_bad = 'separator'
    if name_bad and has_default:
        res.violate(f'C09/irregular-name:{name_bad}', ctx_txt)
    elif name_bad:
        res.label('unnamed-chain-result:' + name_bad)

    # ---- P3: the final path is not outside (strictly inside follows from P1 + P2) ----
    final = os.path.join(ldir, name)
    final_real = os.path.realpath(final)
    if dir_ok and not (name_bad and has_default):
        strict = not name_bad
        if not _inside(final_real, root, strict=strict):
            res.violate('C09/escape:path', ctx_txt + f' resolves to {final_real!r}, download directory is {root!r}')

    # ---- P4: does not exist yet ----------------------------------------
    if number_last and not (name_bad and has_default):
        if os.path.lexists(final):
            what = 'dir' if os.path.isdir(final) else 'file'
            res.violate('C09/existing-path-chosen:' + ('lib' if chain == 'lib' else 'number-last'),
                        ctx_txt + f' but that {what} already exists; contents={sorted(created)[:16]}')
        elif usable and name != real[-1]:
            res.label('renamed-to-fresh')


# ---------------------------------------------------------------------------
# sequence cases (tag 'seq'): several path calculations on ONE SharesManager while the user changes
# settings.shares.download in between; every result is judged against the directory configured at that moment

SEQ_DIRS = ['dl', 'dl2', 'dl/nested']          # relative to <tmp>/r: sibling sharing a name prefix, nested directory
SEQ_PATHS = ['@@abcde\\Music\\song.mp3', 'Music/album\\song.mp3', 'song.mp3', '@@x\\a (1).txt', 'C:\\dir\\f.txt',
             'a\\..\\b\\evil.txt', '..\\..\\x.txt', '@@abcde\\Music\\other.flac']
SEQ_PRE = ['none', 'target', 'run']
MAX_STEPS = 5


@st.composite
def seq_case(draw):
    n = draw(st.integers(2, 4))
    steps = []
    for _ in range(n):
        steps.append({'dir': draw(st.integers(0, len(SEQ_DIRS) - 1)), 'rel': draw(st.sampled_from([False, False, True])),
                      'path': draw(st.integers(0, len(SEQ_PATHS) - 1)), 'pre': draw(st.sampled_from(SEQ_PRE))})
    chain = draw(st.sampled_from(['lib', 'lib', 'lib'] + CHAINS))
    return {'t': 'seq', 'chain': chain, 'steps': steps}


def _enumerated_seq_cases():
    """Every ordered pair (and A,B,A triple) of configured directories x absolute/relative setting x 3 chains."""
    for chain in ('lib', ['default'], ['default', 'keep', 'number']):
        for a, b in itertools.permutations(range(len(SEQ_DIRS)), 2):
            for rel_a, rel_b in itertools.product((False, True), repeat=2):
                yield {'t': 'seq', 'chain': chain, 'steps': [
                    {'dir': a, 'rel': rel_a, 'path': 0, 'pre': 'none'}, {'dir': b, 'rel': rel_b, 'path': 0, 'pre': 'none'}]}
            yield {'t': 'seq', 'chain': chain, 'steps': [
                {'dir': a, 'rel': False, 'path': 0, 'pre': 'target'}, {'dir': b, 'rel': False, 'path': 0, 'pre': 'target'},
                {'dir': a, 'rel': False, 'path': 7, 'pre': 'none'}]}


def run_seq_case(case, res: CaseResult):
    chain = case.get('chain')
    steps = case.get('steps')
    if chain != 'lib':
        if not isinstance(chain, list) or not chain or len(chain) > 3 or len(set(map(str, chain))) != len(chain) \
                or any(c not in STRATS for c in chain):
            return
    if not isinstance(steps, list) or not steps:
        return
    plan = []
    for stp in steps[:MAX_STEPS]:
        if not isinstance(stp, dict):
            return
        try:
            plan.append((int(stp.get('dir', 0)) % len(SEQ_DIRS), bool(stp.get('rel')),
                         SEQ_PATHS[int(stp.get('path', 0)) % len(SEQ_PATHS)],
                         stp.get('pre') if stp.get('pre') in SEQ_PRE else 'none'))
        except (TypeError, ValueError):
            return
    from aioslsk.events import EventBus
    from aioslsk.settings import CredentialsSettings, Settings
    from aioslsk.shares.manager import SharesManager
    tmp = tempfile.mkdtemp(prefix='c09-', dir=_TMP_BASE)
    try:
        base = os.path.join(os.path.realpath(tmp), 'r')
        dirs = [os.path.join(base, *d.split('/')) for d in SEQ_DIRS]
        for d in dirs:
            os.makedirs(d, exist_ok=True)
        cwd = os.getcwd()                          # never changed: a relative setting keeps meaning the same directory
        settings = Settings(credentials=CredentialsSettings(username='me', password='pw'))
        manager = None
        prev_roots = []
        changes = 0
        chain_name = 'lib' if chain == 'lib' else '>'.join(chain)
        for k, (di, rel, path, pre) in enumerate(plan):
            value = os.path.relpath(dirs[di], cwd) if rel else dirs[di]
            # ---- the user (re)configures the download directory -----------------------
            settings.shares.download = value
            if manager is None:
                manager = SharesManager(settings, EventBus(), None)
                if chain != 'lib':
                    manager.naming_strategies = _chain_objects(chain)     # documented way to configure (USAGE.rst)
            configured = os.path.abspath(settings.shares.download)          # at the moment the path is chosen
            root = os.path.realpath(configured)
            if prev_roots and prev_roots[-1] != root:
                changes += 1
            created = []
            name = _own_split(path)[-1]
            if pre != 'none':
                for fname in [name] + ([_numbered(name, 1), _numbered(name, 2)] if pre == 'run' else []):
                    target = os.path.join(configured, fname)
                    if not os.path.lexists(target):
                        with open(target, 'xb'):
                            pass
                        created.append('f:' + fname)
            exc = None
            try:
                result = manager.calculate_download_path(path)
            except Exception as e:   # noqa: BLE001 - classified by _judge
                exc, result = e, None
            _judge(res, path, chain, configured, root, exc, result, created, prev_roots=tuple(prev_roots),
                   step=f'step {k} (download setting {value!r}, {changes} change(s) so far): ')
            if root not in prev_roots:
                prev_roots.append(root)
            else:                                   # keep "most recent last" order
                prev_roots.remove(root)
                prev_roots.append(root)
        res.label('seq', 'seq:chain:' + chain_name, 'seq:changes=%d' % changes)
        if any(rel for _, rel, _, _ in plan):
            res.label('seq:relative-setting')
        res.nontrivial = changes > 0
        res.key = ['seq', chain_name, plan]
    finally:
        shutil.rmtree(tmp, ignore_errors=True)


def run_case(case) -> CaseResult:
    res = CaseResult()
    if not isinstance(case, dict):
        return res
    tag = case.get('t')
    if tag == 'pure':
        run_pure_case(case, res)
    elif tag == 'seq':
        run_seq_case(case, res)
    elif tag == 'conc':
        from checks import c09_conc
        c09_conc.run_conc_case(case, res)
    # unknown tags are ignored
    return res


# ---------------------------------------------------------------------------

def _shard_pure(ctx):
    ctx.enumerate(_enumerated_cases())
    n = 1600 if ctx.tier == 'quick' else 40000
    ctx.explore(pure_case(), n, salt=1)
    ctx.enumerate(_enumerated_seq_cases())
    ctx.explore(seq_case(), 150 if ctx.tier == 'quick' else 4000, salt=2)


def run_shard(ctx):
    # the concurrent part first: on a contended machine the soft time budget then cuts the (cheap, numerous)
    # generated path cases, not the interleaving cases
    from checks import c09_conc
    c09_conc.shard_conc(ctx)
    _shard_pure(ctx)


MANIFEST_ENTRY = {
    'technique': 'property-based testing (Hypothesis): generated remote paths (component lists x separator runs) x '
                 'every ordered chain of the shipped naming strategies x generated download-directory contents on a '
                 'real temp directory, plus a small exhaustive enumeration of traversal patterns; path-safety oracle '
                 'on the returned (dir, name)',
    'level_text': 'Generated-input exploration of aioslsk.naming.chain_strategies and '
                  'SharesManager.calculate_download_path: containment (realpath under the download directory), regular '
                  'file name, freshness against the real directory contents, and exceptions for paths that name a '
                  'file. Sampled, no proof; the explored set and label histogram are in the evidence.',
    'level_note': 'Second part (checks/c09_conc.py): 2..3 downloads of equally named files from different scripted uploaders '
                  'through the real TransferManager with generated start offsets and executor delays; at no sampled instant '
                  'two active downloads share a local path, nothing is created outside the download directory; the '
                  'download directory setting is optionally changed (absolute / relative) between the downloads and every '
                  'chosen path is judged against the directory configured at the moment it is chosen; optionally the '
                  'download that holds the path lock (path chosen, placeholder file not created yet) or one that waits '
                  'for it is aborted / paused / removed at a generated offset (virtual ms + loop iterations) after the '
                  'k-th path calculation and queued again later, while further equally named downloads arrive; a '
                  'download whose abort / pause / removal is in progress does not count as active; additionally no '
                  'download may be left INITIALIZING / DOWNLOADING without a task; optionally a keep-directory chain '
                  'is configured and the uploaders report directories that are named like the file or are 300 '
                  'characters long (cannot be created) next to an equally named active / finished / pre-existing file '
                  'in the download root; optionally a paused download whose partial file was deleted from outside is '
                  'queued again in the instant an equally named download arrives (clashes that begin before the resumed '
                  'download has prepared its path again are attributed to the outside deletion and only labelled). '
                  'Pure part only checks the path chosen by the naming layer (what TransferManager._prepare_download_path '
                  'joins and opens); regular-name and freshness predicates are asserted only for the chains whose '
                  'strategies promise them (see assumptions). POSIX file system; no symlinks, no NUL in paths.',
}

KNOWN_REPLAYS = {
    # a download paused between 'path chosen' and 'placeholder created' keeps the path; the next equally named
    # download is given the same path and the resumed one appends to that file
    'C09/unreserved-path-kept-after-pause:completed-downloads-share-local-path': {
        't': 'conc', 'name': 'song.mp3', 'n': 3, 'download_at': [0, 0, 0], 'start_at': [0, 0, 0],
        'sizes': [9000, 9000, 9000], 'exec_delay': 0.0, 'pre': 'none', 'limited': False, 'same_dir': True,
        'act': {'kind': 'pause', 'who': 0, 'after_call': 0, 'delay_ms': 0, 'iters': 0, 'resume_ms': 100}},
    'C09/escape:directory:dotdot-component': {
        't': 'pure', 'parts': [['', '@@abc'], ['\\', '..'], ['\\', 'evil.txt']], 'tail': '', 'chain': ['default', 'keep'],
        'pre': [], 'mk': True},
    'C09/irregular-name:dot-component': {
        't': 'pure', 'parts': [['', 'a'], ['\\', '..']], 'tail': '', 'chain': ['default'], 'pre': [], 'mk': True},
}
