"""C13 — distributed tree: one parent, bounded live children, truthful advertised place (DESIGN §3 C13)."""
from __future__ import annotations

import asyncio
import collections
import logging
import math
import traceback

from hypothesis import strategies as st

from vfw import simloop, simworld
from vfw.runner import CaseResult

PROPERTY = 'C13'
LEVEL = 'exploration'
RULE = (
    "Case = a logged-in real SoulSeekClient ('me') on the virtual loop, a simulated server (sends ParentMinSpeed / "
    "ParentSpeedRatio after every login, answers GetUserStats) reached over a link with generated write back "
    "pressure (drain() of a send to the server completes 0 / 5 / 50 / 200 ms after the write; the bytes leave at "
    "once), 3..4 scripted distributed peers (per peer: clear and obfuscated listening port, outcome of the client's "
    "direct connect accept/refuse/hang, indirect pierce/cannot/silent, optional automatic announcement of level/root "
    "on candidate connections the client opens to it), connect mode race/fallback, network.peer.obfuscate on/off, "
    "and a history of <= 10 events: PotentialParents(list); incoming D connection from p on the clear or the "
    "obfuscated listening port (init message obfuscated, plain frames afterwards, as the protocol prescribes for D "
    "connections); ConnectToPeer(type D) relayed for p (the client opens the connection to p: clear port, or p's "
    "obfuscated port when network.peer.obfuscate prefers it; p is a child candidate); DistributedBranchLevel(l) / "
    "DistributedBranchRoot(r) / both (either order) on a live link of p or of the current parent (repeated with new "
    "values, level 0 included; with nobody connected: p connects and announces at once); EOF/reset of a link of p / "
    "of the parent / of a child; write failure armed on the client-side socket of the k-th child (the next write to "
    "that child raises ECONNRESET in drain(): nothing happens until the client fans something out); change of a "
    "peer's connect outcome; ParentMinSpeed (1/5/10) / ParentSpeedRatio (multiples of 10 and 15, 25, 35, 99, 9, 5, "
    "1) / GetUserStats(own speed, incl. the boundaries k * ratio/10 * 1024 and one byte below); ResetDistributed; server session loss by reset (auto reconnect + re-login) or EOF "
    "(re-login by a later event); long advance (0.5 / 2 / 11 s). Operands are indices modulo the live population. "
    "Optional structured prefixes raise the density of the interesting classes: child and parent early; "
    "'handover' (a second candidate connects after the parent was chosen and stays silent, the parent is lost, the "
    "candidate announces 0..100 ms later, i.e. inside or outside the window in which the client is still telling "
    "the server about the loss); 'limit' (children first, then a speed/ratio/min-speed change, then one more peer); "
    "'fanout' (2..3 children, a write failure armed on one of them - first, middle or last of the children list - "
    "immediately before the parent announces new values / is lost / the server resets / a parent is set: every "
    "remaining live child must still be told the new position); 'boundary' (a ratio/speed pair with maximum m <= 3, "
    "mostly ratios that are not multiples of 10, set at login or by later ParentSpeedRatio / GetUserStats messages, "
    "then exactly m + 1 peers connect: the last one must be refused). "
    "After each event the driver lets 1..4 loop iterations or 0.5 / 1 / 2 / 4 / 20 / 100 ms pass (the next event "
    "lands between the sends the previous one triggered; equal arrival instants interleave the handlers of "
    "different connections per loop iteration) or quiesces (>= 300 ms, extended until no send to the server is "
    "waiting for drain() any more). Oracle: at every step, on every received message and connection state change: "
    "the parent is not among the children (evaluation of the history stops there: later observations are "
    "consequences). At every quiescent point and at the end: parent and every child are CONNECTED type-D "
    "connections registered in network.peer_connections whose remote end has not closed; a connection that was "
    "neither parent nor child before a parent was chosen does not survive the choice (DESIGN.rst); every child "
    "addition (observed at the moment of the append) happened while acceptance was on, len(children) < max children "
    "(reference: last own GetUserStats against the ParentMinSpeed/ParentSpeedRatio of this server connection, "
    "formula of SOULSEEK.rst, folded in receive order) and the user was not among the last 20 proposed potential "
    "parents; while logged in, the fold of the server-bound BranchLevel / BranchRoot / ToggleParentSearch frames of "
    "the current session and, per child, of the DistributedBranchLevel / DistributedBranchRoot frames it received - "
    "the bytes that arrived at the child parsed as PLAIN frames; unparsable bytes are a violation of their own - "
    "(level 0 implies root = sender) equals the position derived from what the current parent's link last "
    "announced: (root, level + 1, search off), or (me, 0, search on) without a parent. Exceptions of programming-"
    "error type raised inside aioslsk/distributed.py handlers (swallowed and logged by the event bus) are "
    "violations. Non-trivial = a parent is set and later re-announces or is lost while >= 1 child exists; distinct = "
    "distinct sequence of (event kind, gap class)."
)
ASSUMPTIONS = [
    "in-memory TCP: ordered, lossless, latency 1 ms (strictly positive); quiescence = 300 ms without driver action, "
    "extended while the (slow) server link still holds back a drain(): idle at two samples 50 ms apart; "
    "connects in flight (hang: 10 s connect timeout, silent indirect: 60 s) and the 60 s idle read timeout may fire "
    "during long histories: they are ordinary events for the oracle",
    "announced roots are never the client's own user name (the library treats that as 'we are the branch root'); a "
    "peer whose last announced level is 0 announces only itself as root (protocol convention: level 0 = the root)",
    "advertised-position checks are applied only while the client is logged in (and >= 100 ms after the login "
    "request); structure checks always",
    "child limit reference: accept = speed >= min_speed*1024, max = floor(speed / (ratio/10*1024)) (SOULSEEK.rst "
    "'Max children'; exact integer arithmetic floor(10*speed / (1024*ratio)), agrees with the pinned tree on the whole "
    "generated grid incl. ratios below 10; ratio 0 has no documented meaning: not drawn, maximum not checked), defaults min_speed 1 / ratio 50 (constants.py) while the server has not sent them on the "
    "current server connection; the potential-parent cache holds the last 20 proposed names (constants.py)",
    "parent identity is the client's own choice (dn.parent); 'same user is parent and child over two different "
    "connections' is labelled, not flagged (the property is read per connection)",
    "'search off while a parent is set' and 'other distributed connections are closed when a parent is chosen' are "
    "taken from docs/source/DESIGN.rst (Distributed Network / Parent), not from the property statement",
    "observation reads DistributedNetwork.parent/children and network.peer_connections, replaces the children list "
    "by a recording list subclass, registers priority-0 listeners on the client's event bus and taps the 'aioslsk' "
    "logger for swallowed handler exceptions (harness-side, no source hook)",
]
BUDGET_S = {'quick': 150, 'thorough': 1500}

ME = 'me'
PEERS = ['p0', 'p1', 'p2', 'p3']
ROOTS = PEERS + ['rA', 'rB']
# own upload speeds incl. the boundaries k * (ratio / 10 * 1024) of the ratios below (indices are part of saved cases)
SPEEDS = [0, 1024, 5120, 6000, 10240, 20480, 2048, 3072, 4096, 1536, 2560, 3584, 6144, 9216, 7168, 2047, 3071]
MINSPEEDS = [1, 5, 10]
# ParentSpeedRatio values: multiples of 10 and others (15, 25, 35, 99, below 10); the last one (0) has no documented
# meaning (division by zero in the documented formula): reachable by a saved case, not drawn by the strategy
RATIOS = [50, 25, 100, 15, 35, 99, 5, 9, 1, 0]
N_RATIOS_GEN = len(RATIOS) - 1
GAPS = [0.0, 0.0005, 0.001, 0.002, 0.004, 'q', 0.02, 0.1]      # index 5 = quiesce (indices are part of saved cases)
DRAIN = [0.0, 0.005, 0.05, 0.2]      # back pressure of the server link: drain() completes that much after a write
ADV = [0.5, 2.0, 11.0]
DELAYS = [0.0, 0.0005, 0.001, 0.003]
DIRECT = ['accept', 'refuse', 'hang']
INDIRECT = ['pierce', 'cannot', 'silent']
QUIESCE = 0.3003     # off the 0.5 ms grid of the events: never samples the instant a write resumes
OBF_PORT = 2235
OPS = ('pp', 'in', 'cin', 'wfail', 'lvl', 'root', 'both', 'plvl', 'proot', 'pboth', 'close', 'pclose', 'cclose', 'direct', 'indirect',
       'minspeed', 'ratio', 'speed', 'reset', 'drop', 'relogin', 'adv')
PROGRAMMING_ERRORS = ('ZeroDivisionError', 'OverflowError', 'AttributeError', 'TypeError', 'ValueError', 'KeyError', 'IndexError', 'RuntimeError',
                      'InvalidStateError', 'AssertionError', 'NameError', 'UnboundLocalError', 'RecursionError')


# ---------------------------------------------------------------------------
# strategies

def _i(n):
    return st.integers(0, n - 1)


@st.composite
def _event(draw):
    op = draw(st.sampled_from(
        ['pp'] * 4 + ['in'] * 4 + ['cin'] + ['wfail'] * 2 + ['both'] * 3 + ['lvl'] * 2 + ['root'] * 2 + ['plvl'] * 3 + ['proot'] * 3 + ['pboth'] +
        ['pclose'] * 3 + ['cclose'] * 2 + ['close'] * 2 + ['speed'] * 2 + ['minspeed', 'ratio', 'reset', 'reset', 'drop',
                                                                         'drop', 'relogin', 'adv', 'direct',
                                                                         'indirect']))
    ev = {'op': op, 'g': draw(st.sampled_from([0, 1, 2, 3, 4, 6, 7, 5, 5, 5, 5, 5]))}
    if op == 'pp':
        ev['who'] = draw(st.lists(_i(4), min_size=1, max_size=3))
    if op in ('in', 'cin', 'lvl', 'root', 'both', 'close', 'direct', 'indirect'):
        ev['p'] = draw(_i(4))
    if op in ('in', 'lvl', 'root', 'both'):
        ev['obf'] = draw(st.sampled_from([False, False, True]))     # (new) incoming connection on the obfuscated port
    if op in ('lvl', 'root', 'both', 'close', 'cclose', 'wfail'):
        ev['k'] = draw(_i(3))
    if op in ('lvl', 'both', 'plvl', 'pboth'):
        ev['v'] = draw(st.sampled_from([0, 0, 1, 2, 3, 4]))
    if op in ('root', 'both', 'proot', 'pboth'):
        ev['r'] = draw(_i(len(ROOTS)))
    if op in ('both', 'pboth'):
        ev['rf'] = draw(st.booleans())
    if op in ('close', 'pclose', 'cclose', 'drop'):
        ev['reset'] = draw(st.booleans())
    if op in ('direct', 'indirect'):
        ev['m'] = draw(_i(3))
    if op == 'minspeed':
        ev['v'] = draw(_i(len(MINSPEEDS)))
    if op == 'ratio':
        ev['v'] = draw(_i(N_RATIOS_GEN))
    if op == 'speed':
        ev['v'] = draw(_i(len(SPEEDS)))
    if op == 'adv':
        ev['d'] = draw(_i(len(ADV)))
    return ev


@st.composite
def case_strategy(draw, avoid=()):
    npeers = draw(st.integers(3, 4))
    peers = []
    for _ in range(npeers):
        auto = draw(st.none() | st.fixed_dictionaries({
            'v': st.sampled_from([0, 1, 2, 3]), 'r': _i(len(ROOTS)), 'rf': st.booleans(),
            'only': st.sampled_from([0, 0, 0, 0, 1, 2]), 'd': _i(len(DELAYS))}))
        peers.append({'direct': draw(st.sampled_from([0, 0, 0, 0, 1, 2])),
                      'indirect': draw(st.sampled_from([0, 0, 1, 2])), 'auto': auto})
    # optional structured prefix so that a parent and a child exist early (density of the non-trivial class)
    prefix = []
    shape = draw(st.sampled_from(['none', 'child', 'parent', 'child+parent', 'child+parent', 'child+parent',
                                  'parent+child', 'parent+child', 'handover', 'handover', 'limit', 'fanout',
                                  'fanout', 'boundary', 'boundary']))
    forced = {}
    if shape != 'none':
        c = draw(_i(npeers))
        p = draw(_i(npeers))
        child = {'op': 'in', 'p': c, 'obf': draw(st.sampled_from([False, False, True])),
                 'g': draw(st.sampled_from([5, 5, 3, 1]))}
        parent = [{'op': 'pp', 'who': [p], 'g': 5},
                  {'op': 'both', 'p': p, 'k': 0, 'v': draw(st.sampled_from([0, 1, 2])), 'r': draw(_i(len(ROOTS))),
                   'rf': draw(st.booleans()), 'g': draw(st.sampled_from([5, 5, 2, 0]))}]
        if shape == 'handover':
            # a second candidate connects after the parent was chosen and stays silent; the parent is lost and the
            # candidate announces while the client may still be telling the server about the loss
            q = (p + 1 + draw(_i(npeers - 1))) % npeers
            prefix = [child] + parent + [
                {'op': 'pp', 'who': [q], 'g': 5},
                {'op': 'pclose', 'reset': draw(st.booleans()), 'g': draw(st.sampled_from([0, 1, 2, 3, 4, 6, 7]))},
                {'op': 'both', 'p': q, 'k': 0, 'v': draw(st.sampled_from([0, 1, 2, 3])), 'r': draw(_i(len(ROOTS))),
                 'rf': draw(st.booleans()), 'g': draw(st.sampled_from([5, 5, 2, 6]))}]
            parent[1]['g'] = 5
            peers[p]['auto'] = peers[q]['auto'] = None
            peers[p]['direct'] = peers[q]['direct'] = 0
        elif shape == 'fanout':
            # 2..3 children, then the write to ONE of them (any position in the children list) fails exactly while
            # branch values are fanned out: the parent announces new values / is lost / a parent is set
            others = [i for i in range(npeers) if i != p]
            kids = [{'op': 'in', 'p': draw(st.sampled_from(others)), 'obf': False, 'g': 5}
                    for _ in range(draw(st.integers(2, 3)))]
            arm = {'op': 'wfail', 'k': draw(_i(3)), 'g': draw(st.sampled_from([0, 0, 1, 2]))}
            parent[1]['g'] = 5
            if draw(st.booleans()):
                trigger = draw(st.sampled_from([{'op': 'plvl', 'v': 4}, {'op': 'proot', 'r': 5}, {'op': 'pclose'},
                                                {'op': 'pclose', 'reset': True}, {'op': 'reset'},
                                                {'op': 'pboth', 'v': 3, 'r': 4, 'rf': draw(st.booleans())}]))
                prefix = kids + parent + [arm, dict(trigger, g=5)]
            else:
                prefix = kids + [parent[0], arm, parent[1]]
            peers[p]['auto'] = None
            peers[p]['direct'] = 0
            forced = {'speed': 5, 'minspeed': 0, 'ratio': draw(st.sampled_from([0, 1]))}
        elif shape == 'boundary':
            # the child limit at its boundary: a ratio/speed pair with a small maximum m (mostly ratios that are not
            # multiples of 10, speeds at k * ratio/10 * 1024), set at login or by a later ParentSpeedRatio /
            # GetUserStats, then exactly m + 1 peers connect: m are accepted, the last one must be refused
            ri, si, m = _BOUNDARY[draw(st.one_of(_i(_N_ODD_BOUNDARY), _i(_N_ODD_BOUNDARY), _i(len(_BOUNDARY))))]
            ins = [{'op': 'in', 'p': draw(_i(npeers)), 'obf': False, 'g': 5} for _ in range(m + 1)]
            how = draw(st.sampled_from(['login', 'ratio-event', 'both-events']))
            if how == 'login':
                forced = {'speed': si, 'ratio': ri, 'minspeed': 0}
                prefix = ins
            elif how == 'ratio-event':
                forced = {'speed': si, 'minspeed': 0}
                prefix = [{'op': 'ratio', 'v': ri, 'g': 5}] + ins
            else:
                forced = {'minspeed': 0}
                prefix = [{'op': 'ratio', 'v': ri, 'g': draw(st.sampled_from([5, 5, 2, 0]))},
                          {'op': 'speed', 'v': si, 'g': 5}] + ins
        elif shape == 'limit':
            # children first, then the limit changes (possibly below the number of children), then one more peer
            change = draw(st.sampled_from([{'op': 'speed', 'v': 1}, {'op': 'speed', 'v': 2}, {'op': 'speed', 'v': 3},
                                           {'op': 'speed', 'v': 0}, {'op': 'ratio', 'v': 2}, {'op': 'ratio', 'v': 0},
                                           {'op': 'minspeed', 'v': 1}, {'op': 'minspeed', 'v': 2}]))
            more = {'op': 'in', 'p': draw(_i(npeers)), 'obf': False, 'g': 5}
            prefix = [child] + ([dict(more, p=p)] if draw(st.booleans()) else []) + [
                dict(change, g=draw(st.sampled_from([5, 5, 5, 2, 0]))), more]
        else:
            prefix = {'child': [child], 'parent': parent, 'child+parent': [child] + parent,
                      'parent+child': parent + [child]}[shape]
    rest = draw(st.lists(_event(), min_size=1, max_size=10 - len(prefix)))
    events = [e for e in prefix + rest if e['op'] not in avoid]
    return dict({'peers': peers, 'race': draw(st.booleans()), 'speed': draw(st.sampled_from([2, 2, 2, 4, 4, 4, 5, 5, 5, 3, 1, 0])),
            'minspeed': draw(_i(len(MINSPEEDS))) if draw(st.booleans()) else 0,
            'ratio': draw(_i(N_RATIOS_GEN)) if draw(st.booleans()) else 0,
            'drain': draw(st.sampled_from([0, 0, 0, 1, 2, 2, 3])), 'obfuscate': draw(st.sampled_from([False, False, True])),
            'events': events}, **forced)


# ---------------------------------------------------------------------------
# sanitising (run_case must be total on shrunk documents)

def _int(v, n, default=0):
    try:
        if isinstance(v, bool):
            v = int(v)
        return int(v) % n
    except Exception:
        return default


def _sanitise(case):
    if not isinstance(case, dict):
        return None
    raw_peers = case.get('peers')
    raw_peers = raw_peers if isinstance(raw_peers, list) else []
    npeers = 4 if len(raw_peers) >= 4 else 3
    peers = []
    for i in range(npeers):
        rp = raw_peers[i] if i < len(raw_peers) and isinstance(raw_peers[i], dict) else {}
        auto = rp.get('auto')
        if isinstance(auto, dict):
            auto = {'v': _int(auto.get('v'), 5), 'r': _int(auto.get('r'), len(ROOTS)), 'rf': bool(auto.get('rf')),
                    'only': _int(auto.get('only'), 3), 'd': _int(auto.get('d'), len(DELAYS))}
        else:
            auto = None
        peers.append({'direct': _int(rp.get('direct'), 3), 'indirect': _int(rp.get('indirect'), 3), 'auto': auto})
    events = []
    raw_events = case.get('events')
    for ev in (raw_events if isinstance(raw_events, list) else [])[:10]:
        if not isinstance(ev, dict) or ev.get('op') not in OPS:
            continue
        op = ev['op']
        who = ev.get('who')
        out = {'op': op, 'g': _int(ev.get('g', 5), len(GAPS), 5),
               'who': [_int(w, npeers) for w in (who if isinstance(who, list) else [])][:3],
               'p': _int(ev.get('p'), npeers), 'k': _int(ev.get('k'), 8), 'v': _int(ev.get('v'), 64 if op in ('speed', 'ratio', 'minspeed') else 6),
               'r': _int(ev.get('r'), len(ROOTS)), 'rf': bool(ev.get('rf')), 'reset': bool(ev.get('reset')),
               'm': _int(ev.get('m'), 3), 'd': _int(ev.get('d'), len(ADV)), 'obf': bool(ev.get('obf'))}
        events.append(out)
    return {'peers': peers, 'race': bool(case.get('race')), 'speed': _int(case.get('speed', 4), len(SPEEDS), 4),
            'minspeed': _int(case.get('minspeed'), len(MINSPEEDS)), 'ratio': _int(case.get('ratio'), len(RATIOS)),
            'drain': _int(case.get('drain'), len(DRAIN)), 'obfuscate': bool(case.get('obfuscate')), 'events': events}


# ---------------------------------------------------------------------------
# reference pieces

def _limits(speed, min_speed, ratio):
    """SOULSEEK.rst 'Max children': accept iff speed >= min_speed * 1024; max = floor(speed / (ratio / 10 * 1024)),
    computed here in exact integer arithmetic (= floor(10 * speed / (1024 * ratio))), independent of the library.
    A ratio of 0 has no documented meaning: the maximum is undefined (None, not checked)."""
    min_speed = 1 if min_speed is None else min_speed
    ratio = 50 if ratio is None else ratio
    if speed < min_speed * 1024:
        return False, 0
    if ratio <= 0:
        return True, None
    return True, (10 * speed) // (1024 * ratio)


# (ratio index, speed index, maximum) with min speed 1 and a small maximum: the 'boundary' prefix connects exactly
# maximum + 1 peers (the last one must be refused); ratios that are not multiples of 10 come first (drawn more often)
_BOUNDARY = sorted(((ri, si, _limits(SPEEDS[si], 1, RATIOS[ri])[1]) for ri in range(N_RATIOS_GEN)
                    for si in range(len(SPEEDS))
                    if _limits(SPEEDS[si], 1, RATIOS[ri])[0] and _limits(SPEEDS[si], 1, RATIOS[ri])[1] <= 3),
                   key=lambda t: (RATIOS[t[0]] % 10 == 0, t))
_N_ODD_BOUNDARY = sum(1 for ri, _, _ in _BOUNDARY if RATIOS[ri] % 10)


def _fold_announced(items):
    """[(kind, value)] a peer sent on one link -> (level, root, [states])."""
    level = root = None
    states = []
    for kind, val, sender in items:
        if kind == 'lvl':
            level = val
            if val == 0:
                root = sender
        else:
            root = val
        states.append((level, root))
    return level, root, states


class _ErrorTap(logging.Handler):
    """Collects exceptions the library logs (event bus / reader loop swallow handler errors)."""

    def __init__(self):
        super().__init__(level=logging.WARNING)
        self.errors = []

    def emit(self, record):
        ei = record.exc_info
        if not ei or ei[0] is None:
            return
        frames = traceback.extract_tb(ei[2])
        where = None
        for fr in frames:
            if fr.filename.replace('\\', '/').endswith('aioslsk/distributed.py'):
                where = fr.name
        self.errors.append((ei[0].__name__, where, repr(ei[1])[:200]))


def run_case(case) -> CaseResult:
    res = CaseResult()
    doc = _sanitise(case)
    if doc is None or not doc['events']:
        return res

    from aioslsk.events import ConnectionStateChangedEvent, MessageReceivedEvent
    from aioslsk.network.connection import ConnectionState, PeerConnection, ServerConnection
    from aioslsk.network.network import PeerConnectMode
    from aioslsk.protocol import messages as M
    from aioslsk.protocol.primitives import PotentialParent, UserStats

    viol = []            # (kind, detail) in detection order
    labels = set()
    flags = {'reannounce_with_child': False, 'lost_with_child': False, 'parent_set': False}

    def violate(kind, detail):
        if all(k != kind for k, _ in viol):
            viol.append((kind, detail))

    # the event bus and the reader loop swallow handler exceptions and only log them: tap the library's logger
    # (the runner disables logging globally; it is re-enabled for the duration of the case only)
    tap = _ErrorTap()
    lib_logger = logging.getLogger('aioslsk')
    lib_logger.addHandler(tap)
    prev_disable = logging.root.manager.disable
    logging.disable(logging.NOTSET)

    async def main(world: simworld.World):
        loop = world.loop
        server = world.server
        s = simworld.mk_settings(ME)
        s.network.server.reconnect.auto = True
        s.network.server.reconnect.timeout = 1
        s.network.peer.connect_mode = PeerConnectMode.RACE if doc['race'] else PeerConnectMode.FALLBACK
        s.network.peer.obfuscate = doc['obfuscate']      # prefer the obfuscated port of a peer when there is a choice
        drain_delay = DRAIN[doc['drain']]
        labels.add('server-drain:%gms' % (drain_delay * 1000))
        srv = {'minspeed': MINSPEEDS[doc['minspeed']], 'ratio': RATIOS[doc['ratio']], 'speed': SPEEDS[doc['speed']]}

        def post_login():
            server.post_login = [M.ParentMinSpeed.Response(srv['minspeed']), M.ParentSpeedRatio.Response(srv['ratio'])]

        def set_speed():
            server.users.setdefault(ME, {})['stats'] = (srv['speed'], 5, 10, 2)
        post_login()
        set_speed()

        sent = {}        # id(PeerLink) -> [(kind, value, sender)] announcements the harness sent on the link
        peers = []
        for i, cfg in enumerate(doc['peers']):
            p = world.add_peer(PEERS[i], obf_port=OBF_PORT, direct=DIRECT[cfg['direct']],
                               indirect=INDIRECT[cfg['indirect']])
            peers.append(p)

        def announce(link, items):
            """items: [('lvl', v) | ('root', name)] sent back-to-back on one link."""
            name = link.peer.name
            log = sent.setdefault(id(link), [])
            for kind, val in items:
                if kind == 'root':
                    if _fold_announced(log)[0] == 0:
                        val = name      # a peer at level 0 is the root itself (see ASSUMPTIONS)
                    link.send_msg(M.DistributedBranchRoot.Request(val))
                else:
                    link.send_msg(M.DistributedBranchLevel.Request(val))
                log.append((kind, val, name))

        cin_tickets = {}     # ticket of a ConnectToPeer the harness relayed -> connection type

        def make_on_link(p, cfg):
            def on_link(link):
                init = link.init
                if isinstance(init, M.PeerPierceFirewall.Request):
                    # the client connected to p on behalf of a ConnectToPeer relayed by the server ('cin'): the type is
                    # the one p asked for; everything after the (possibly obfuscated) init message is plain for 'D'
                    link.typ = cin_tickets.get(init.ticket, link.typ)
                    if link.ep.link.name.endswith(':%d' % OBF_PORT):
                        labels.add('client-connected-to-obfuscated-port')
                    return
                # automatic announcement only on candidate connections the client initiated (direct or pierced)
                auto = cfg['auto']
                if auto is None or link.typ != 'D' or not (isinstance(init, M.PeerInit.Request) or init == 'sent-pierce'):
                    return
                items = [('lvl', auto['v']), ('root', ROOTS[auto['r']])]
                if auto['rf']:
                    items.reverse()
                if auto['only'] == 1:
                    items = [('lvl', auto['v'])]
                elif auto['only'] == 2:
                    items = [('root', ROOTS[auto['r']])]
                delay = DELAYS[auto['d']]

                def go():
                    if live(link):
                        announce(link, items)
                if delay:
                    loop.call_later(delay, go)
                else:
                    go()
            return on_link
        for p, cfg in zip(peers, doc['peers']):
            p.on_link = make_on_link(p, cfg)

        def live(link):
            ep = link.ep
            return not (ep.closed or ep.got_eof or ep.got_reset)

        def dlinks(p, k):
            """k-th live D link of peer p; any live D link when p has none (operands modulo the live population)."""
            own = [l for l in p.links if l.typ == 'D' and live(l)]
            pop = own or [l for q in peers for l in q.links if l.typ == 'D' and live(l)]
            return pop[k % len(pop)] if pop else None

        client = world.make_client(s)
        dn = client.distributed_network
        net = client.network

        def parent_among_children(tag):
            """Holds at all times (no transient state of the library legitimately has it), checked at every step."""
            parent = dn.parent
            if parent is None or flags.get('contaminated'):
                return
            children = list(dn.children)
            if any(c is parent or c.connection is parent.connection for c in children):
                violate('C13/parent-among-children',
                        f"[{tag}] parent {parent.username} (level {parent.branch_level}, root "
                        f"{parent.branch_root}) is also in children {[c.username for c in children]}")
                # everything observed later in this history follows from the broken structure (the library
                # forwards to a child that is its parent, handles its close twice ...): stop evaluating
                flags['contaminated'] = True

        # ---- reference model folded in *receive* order (listener runs before the library's own handlers) ----
        mdl = {'min_speed': None, 'ratio': None, 'accept': None, 'max': None,
               'pp': collections.deque(maxlen=20), 'offline_dirty': False}

        def server_transport():
            writer = getattr(net.server_connection, '_writer', None)
            return getattr(writer, 'transport', None) if writer is not None else None

        async def quiesce():
            """300 ms without driver action; longer while a send to the (slow) server is still waiting for drain():
            the server link must be found idle twice, 50 ms apart (what a resumed handler sends has arrived then)."""
            def busy():
                tr = server_transport()
                return tr is not None and getattr(tr, '_paused', False)
            await asyncio.sleep(QUIESCE)
            for _ in range(400):
                if busy():
                    await asyncio.sleep(QUIESCE)
                    continue
                await asyncio.sleep(0.0503)
                if not busy():
                    return
            labels.add('never-quiescent')

        def offline():
            # the library's components learn about a new session one after the other: use the component's own view too
            return client.session is None or getattr(dn, '_session', None) is None

        def on_message(event):
            parent_among_children('on message ' + type(event.message).__qualname__)
            m = event.message
            if isinstance(m, M.ParentMinSpeed.Response):
                mdl['min_speed'] = m.speed
            elif isinstance(m, M.ParentSpeedRatio.Response):
                mdl['ratio'] = m.ratio
            elif isinstance(m, M.GetUserStats.Response) and m.username == ME:
                mdl['speed'] = m.user_stats.avg_speed
                mdl['accept'], mdl['max'] = _limits(m.user_stats.avg_speed, mdl['min_speed'], mdl['ratio'])
            elif isinstance(m, M.PotentialParents.Response):
                mdl['pp'].extend(e.username for e in m.entries)
            elif isinstance(m, (M.DistributedBranchLevel.Request, M.DistributedBranchRoot.Request)):
                if offline():
                    mdl['offline_dirty'] = True     # position may change while there is no session

        def on_state(event):
            parent_among_children('on connection state change')
            conn = event.connection
            if isinstance(conn, ServerConnection):
                mdl['min_speed'] = mdl['ratio'] = None
                if event.state == ConnectionState.CONNECTED and drain_delay:
                    tr = server_transport()
                    if tr is not None:
                        tr.drain_delay = drain_delay     # slow server link: every send to the server takes that long
            elif isinstance(conn, PeerConnection) and event.state == ConnectionState.CLOSED:
                par = dn.parent
                if par is not None and par.connection is conn:
                    labels.add('parent-lost')
                    if offline():
                        mdl['offline_dirty'] = True
                    if len(dn.children) >= 1:
                        flags['lost_with_child'] = True

        client.events.register(MessageReceivedEvent, on_message, priority=0)
        client.events.register(ConnectionStateChangedEvent, on_state, priority=0)

        conn_links = {}   # id(conn) -> (conn, PeerLink)

        def link_of(conn):
            hit = conn_links.get(id(conn))
            if hit is not None and hit[0] is conn:
                return hit[1]
            writer = getattr(conn, '_writer', None)
            transport = getattr(writer, 'transport', None) if writer is not None else None
            sim_link = getattr(transport, '_link', None)
            if sim_link is None:
                return None
            for p in peers:
                for l in p.links:
                    if l.ep.link is sim_link:
                        conn_links[id(conn)] = (conn, l)
                        return l
            return None

        additions = []    # records of child additions

        class RecList(list):
            def append(self, peer):
                if flags.get('contaminated'):
                    super().append(peer)
                    return
                rec = {'t': round(loop.time() - simloop.START_TIME, 6), 'user': peer.username, 'n': len(self),
                       'accept': mdl['accept'], 'max': mdl['max'], 'in_pp': peer.username in mdl['pp'],
                       'offline': offline(), 'peer': peer}
                additions.append(rec)
                labels.add('child-added')
                link_of(peer.connection)
                if rec['accept'] is not None:
                    if not rec['accept']:
                        violate('C13/child-accepted:acceptance-off',
                                f"{peer.username} added as child at t={rec['t']} while child acceptance is off "
                                f"(own speed below ParentMinSpeed*1024)")
                    elif rec['max'] is not None and rec['n'] >= rec['max']:
                        violate('C13/child-accepted:limit-reached',
                                f"{peer.username} added as child at t={rec['t']} with {rec['n']} children present, "
                                f"maximum {rec['max']} (own speed / ratio / min speed as received: "
                                f"{mdl.get('speed')} / {mdl['ratio']} / {mdl['min_speed']})")
                if rec['in_pp']:
                    violate('C13/child-accepted:potential-parent',
                            f"{peer.username} added as child at t={rec['t']} although the server proposed it as "
                            f"potential parent (last proposals {list(mdl['pp'])[-6:]})")
                super().append(peer)
        dn.children = RecList(dn.children)

        await client.start()
        await client.login()
        await quiesce()

        manual_relogin = {'needed': False}

        def logged_in(settled=0.0):
            if client.session is None or net.server_connection.state != ConnectionState.CONNECTED:
                return False
            if settled:
                # a (re-)login that is still in progress has not told the server everything yet
                t_login = max((t for t, _, m in server.frames if isinstance(m, M.Login.Request)), default=None)
                return t_login is not None and loop.time() - t_login >= settled
            return True

        def current_session():
            idx = None
            for _, i, m in server.frames:
                if isinstance(m, M.Login.Request):
                    idx = i
            return idx

        # ---- oracle ----------------------------------------------------------
        def check_live(role, dpeer, tag):
            conn = dpeer.connection
            why = None
            if conn.state != ConnectionState.CONNECTED:
                why = 'state-' + conn.state.name
            elif conn.connection_type != 'D':
                why = 'type-' + str(conn.connection_type)
            elif conn not in net.peer_connections:
                why = 'unregistered'
            else:
                l = link_of(conn)
                if l is not None and not live(l):
                    why = 'remote-end-closed'
            if why:
                violate(f'C13/{role}-not-live:{why}', f"[{tag}] {role} {dpeer.username}: {conn!r}" + (
                    ' is not in network.peer_connections (closed and removed earlier, connected afterwards)'
                    if why == 'unregistered' else ''))
            return why is None

        prev_obs = {'parent': None, 'others': []}

        def observe(tag):
            parent_among_children(tag)
            if flags.get('contaminated'):
                return
            parent = dn.parent
            children = list(dn.children)
            # DESIGN.rst: "Setting the parent consists of cancelling all pending distributed connections and
            # disconnecting all other distributed connections except the current children": a connection that was
            # neither parent nor child at the previous quiescent point (no parent then) must not survive the choice
            member_conns = [c.connection for c in children] + ([parent.connection] if parent is not None else [])
            others = [c for c in net.peer_connections
                      if c.connection_type == 'D' and c.state == ConnectionState.CONNECTED and
                      all(c is not m for m in member_conns)]
            if parent is not None and prev_obs['parent'] is None:
                for c in others:
                    if any(c is o for o in prev_obs['others']):
                        violate('C13/other-distributed-connection-survives-parent-choice',
                                f"[{tag}] {c!r} was open before {parent.username} became parent and is still open")
            prev_obs['parent'] = parent
            prev_obs['others'] = others
            if others:
                labels.add('other-distributed-connections')
            if parent is not None:
                flags['parent_set'] = True
                labels.add('parent-set')
                if any(c.username == parent.username for c in children):
                    labels.add('same-user-parent-and-child-other-connection')
            seen = set()
            for c in children:
                if id(c.connection) in seen:
                    violate('C13/duplicate-child', f"[{tag}] connection of {c.username} twice in children")
                seen.add(id(c.connection))
            parent_ok = True
            if parent is not None:
                parent_ok = check_live('parent', parent, tag)
            child_ok = {id(c): check_live('child', c, tag) for c in children}
            if mdl['max'] is not None and children:
                labels.add('children=%d' % min(len(children), 3))

            # derived position
            situation_hist = set()
            if parent is None:
                derived = (ME, 0)
                search = True
            else:
                pl = link_of(parent.connection)
                if pl is None or not parent_ok:
                    return
                level, root, states = _fold_announced(sent.get(id(pl), []))
                if level is None or root is None:
                    violate('C13/parent-with-incomplete-announcement',
                            f"[{tag}] parent {parent.username} announced only level={level} root={root}")
                    return
                derived = (root, level + 1)
                search = False
                situation_hist = {(r, l + 1) for l, r in states[:-1] if l is not None and r is not None}

            def situation(told, child=False):
                if child and mdl['offline_dirty']:
                    return 'changed-while-logged-out'
                if parent is None:
                    return 'no-parent'
                if told in situation_hist and told != derived:
                    return 'parent-reannounced'
                return 'parent-set'

            if not logged_in(settled=0.1):
                labels.add('observed-logged-out')
                return
            ses = current_session()
            t_level = t_root = t_search = None
            for _, i, m in server.frames:
                if i != ses:
                    continue
                if isinstance(m, M.BranchLevel.Request):
                    t_level = m.level
                elif isinstance(m, M.BranchRoot.Request):
                    t_root = m.username
                elif isinstance(m, M.ToggleParentSearch.Request):
                    t_search = m.enable
            if (t_root, t_level) != derived:
                violate(f'C13/server-told-wrong-position:{situation((t_root, t_level))}',
                        f"[{tag}] server was last told level={t_level} root={t_root}; position derived from "
                        f"{'parent ' + parent.username if parent else 'no parent'} is level={derived[1]} "
                        f"root={derived[0]}")
            if t_search != search:
                violate(f"C13/server-told-wrong-parent-search:{'no-parent' if parent is None else 'has-parent'}",
                        f"[{tag}] last ToggleParentSearch told to the server is {t_search}, expected {search}")
            stale = False
            for c in children:
                if not child_ok[id(c)]:
                    continue
                cl = link_of(c.connection)
                if cl is None:
                    continue
                c_level = c_root = None
                if cl.ep.inbuf or any(isinstance(m, tuple) for _, m in cl.messages):
                    # D connections carry plain frames after the init message, whatever port they were opened on
                    stale = True
                    violate('C13/child-told-unreadable-frames',
                            f"[{tag}] child {c.username} ({c.connection!r}) received bytes that are not plain "
                            f"distributed frames ({len(cl.ep.inbuf)} bytes without a plausible frame header, "
                            f"{sum(1 for _, m in cl.messages if isinstance(m, tuple))} undecodable frames)")
                    continue
                for _, m in cl.messages:
                    if isinstance(m, M.DistributedBranchLevel.Request):
                        c_level = m.level
                        if m.level == 0:
                            c_root = ME
                    elif isinstance(m, M.DistributedBranchRoot.Request):
                        c_root = m.username
                rec = next((r for r in additions if r['peer'] is c), None)
                if c_level is None and c_root is None:
                    violate('C13/child-never-told-position' +
                            (':added-while-logged-out' if rec and rec['offline'] else ''),
                            f"[{tag}] child {c.username} never received a branch level/root")
                elif (c_root, c_level) != derived:
                    stale = True
                    violate(f'C13/child-told-wrong-position:{situation((c_root, c_level), child=True)}',
                            f"[{tag}] child {c.username} was last told level={c_level} root={c_root}; position "
                            f"derived from {'parent ' + parent.username if parent else 'no parent'} is "
                            f"level={derived[1]} root={derived[0]}")
            if not stale:
                mdl['offline_dirty'] = False     # every child is in sync again

        observe('start')

        # ---- driver ----------------------------------------------------------
        def parent_link():
            par = dn.parent
            if par is None:
                return None
            l = link_of(par.connection)
            return l if l is not None and live(l) else None

        def note_announce(link):
            if link is not None and link is parent_link():
                labels.add('parent-reannounced')
                if len(dn.children) >= 1:
                    flags['reannounce_with_child'] = True

        def close_link(link, reset):
            if reset:
                link.ep.reset()
            else:
                link.ep.close()

        armed = []       # client-side transports whose next write fails
        for n, ev in enumerate(doc['events']):
            op = ev['op']
            p = peers[ev['p'] % len(peers)]
            done = True
            if op == 'pp':
                entries = [PotentialParent(peers[w].name, peers[w].ip, peers[w].port) for w in ev['who']]
                if entries and logged_in():
                    server.send(M.PotentialParents.Response(entries))
                else:
                    done = False
            elif op == 'in':
                # on the obfuscated port only the init message is obfuscated, a 'D' connection is plain afterwards
                p.connect('D', obfuscated=ev['obf'])
                if ev['obf']:
                    labels.add('incoming-on-obfuscated-port')
            elif op == 'wfail':
                # the OS will report an error (ECONNRESET) on the next write to the k-th child: nothing happens until
                # the client writes to it (fan-out of branch values), then drain() raises on that connection only
                kids = list(dn.children)
                tr = None
                if kids:
                    idx = ev['k'] % len(kids)
                    writer = getattr(kids[idx].connection, '_writer', None)
                    tr = getattr(writer, 'transport', None) if writer is not None else None
                if tr is not None and not getattr(tr, '_lost', False):
                    tr.fail_writes = ConnectionResetError('sim: connection reset on write')
                    armed.append(tr)
                    labels.add('write-failure-armed:%s-of-%d' % (
                        'first' if idx == 0 else ('last' if idx == len(kids) - 1 else 'middle'), min(len(kids), 4)))
                else:
                    done = False
            elif op == 'cin':
                # p asks the server to make the client connect to it (ConnectToPeer relay): the client opens the
                # connection (obfuscated port of p when network.peer.obfuscate prefers it), p did the asking, so it is
                # a child candidate, not a potential parent
                if logged_in():
                    ticket = 900000 + n
                    cin_tickets[ticket] = 'D'
                    server.send(M.ConnectToPeer.Response(
                        username=p.name, typ='D', ip=p.ip, port=p.port, ticket=ticket, privileged=False,
                        obfuscated_port_amount=1, obfuscated_port=p.obf_port))
                else:
                    done = False
            elif op in ('lvl', 'root', 'both', 'plvl', 'proot', 'pboth'):
                # p-variants address the current parent's link; without a parent they act like the plain variants
                link = parent_link() if op[0] == 'p' else None
                if link is None:
                    link = dlinks(p, ev['k'])
                if link is None:
                    # nobody is connected: p connects and announces at once (PeerInit and values in flight together)
                    link = p.connect('D', obfuscated=ev['obf'])
                    labels.add('connect-and-announce')
                if link is not None:
                    note_announce(link)
                    items = {'lvl': [('lvl', ev['v'])], 'root': [('root', ROOTS[ev['r']])],
                             'both': [('lvl', ev['v']), ('root', ROOTS[ev['r']])]}[op.lstrip('p')]
                    if ev['rf']:
                        items.reverse()
                    announce(link, items)
                else:
                    done = False
            elif op in ('close', 'pclose', 'cclose'):
                link = None
                if op == 'pclose':
                    link = parent_link()
                elif op == 'cclose':
                    ls = [l for l in (link_of(c.connection) for c in list(dn.children)) if l is not None and live(l)]
                    link = ls[ev['k'] % len(ls)] if ls else None
                if link is None:
                    link = dlinks(p, ev['k'])
                if link is not None:
                    close_link(link, ev['reset'])
                else:
                    done = False
            elif op == 'direct':
                p.set_direct(DIRECT[ev['m']])
            elif op == 'indirect':
                p.indirect = INDIRECT[ev['m']]
            elif op in ('minspeed', 'ratio', 'speed'):
                if op == 'minspeed':
                    srv['minspeed'] = MINSPEEDS[ev['v'] % len(MINSPEEDS)]
                    msg = M.ParentMinSpeed.Response(srv['minspeed'])
                elif op == 'ratio':
                    srv['ratio'] = RATIOS[ev['v'] % len(RATIOS)]
                    msg = M.ParentSpeedRatio.Response(srv['ratio'])
                else:
                    srv['speed'] = SPEEDS[ev['v'] % len(SPEEDS)]
                    msg = M.GetUserStats.Response(ME, UserStats(srv['speed'], 5, 10, 2))
                post_login()
                set_speed()
                if logged_in():
                    server.send(msg)
                else:
                    done = False
            elif op == 'reset':
                if logged_in():
                    server.send(M.ResetDistributed.Response())
                else:
                    done = False
            elif op == 'drop':
                if logged_in():
                    labels.add('session-lost')
                    if not ev['reset']:
                        manual_relogin['needed'] = True
                    server.close_session(kind='reset' if ev['reset'] else 'eof')
                else:
                    done = False
            elif op == 'relogin':
                if manual_relogin['needed'] and client.session is None and \
                        net.server_connection.state == ConnectionState.CLOSED:
                    manual_relogin['needed'] = False
                    try:
                        await net.connect_server()
                        await client.login()
                        labels.add('manual-relogin')
                    except Exception as exc:   # the session machinery is C16's subject
                        labels.add('manual-relogin-failed:' + type(exc).__name__)
                else:
                    done = False
            elif op == 'adv':
                await asyncio.sleep(ADV[ev['d']])
            labels.add(('op:' if done else 'noop:') + op)
            gap = GAPS[ev['g']]
            if gap == 'q':
                await quiesce()
                observe(f'after event {n} {op}')
            elif gap == 0.0:
                await simloop.step(1 + ev['k'] % 4)
                labels.add('gap:zero')
            else:
                await asyncio.sleep(gap)
                labels.add('gap:ms')
            parent_among_children(f'{gap} s after event {n} {op}')
        await quiesce()
        observe('end')
        if any(getattr(tr, '_lost', False) for tr in armed):
            labels.add('write-failure-fired')
        # a session that was lost by reset comes back by itself: check once more after the re-login
        if client.session is None and not manual_relogin['needed']:
            await asyncio.sleep(3.0)
            await quiesce()
            if client.session is not None:
                labels.add('auto-relogin')
                observe('after auto re-login')
        elif 'session-lost' in labels and client.session is not None:
            labels.add('relogged-in')
        return None

    try:
        _, loop_errors = simworld.run_world(main)
    finally:
        logging.disable(prev_disable)
        lib_logger.removeHandler(tap)

    for name, where, text in tap.errors:
        if where is not None and name in PROGRAMMING_ERRORS:
            violate(f'C13/unexpected-exception:{name}@{where}', text)
    for e in loop_errors:
        if e.get('task') and str(e['task']).startswith('potential-parent') and e.get('exc_type') in PROGRAMMING_ERRORS:
            violate(f"C13/loop-error:{e['exc_type']}@potential-parent-task", str(e)[:300])
    for kind, detail in viol:
        res.violate(kind, detail)
    res.nontrivial = bool(flags['parent_set'] and (flags['reannounce_with_child'] or flags['lost_with_child']))
    if flags['reannounce_with_child']:
        labels.add('parent-reannounced-with-child')
    if flags['lost_with_child']:
        labels.add('parent-lost-with-child')
    res.label(*sorted(labels))
    res.key = [[e['op'], 'q' if GAPS[e['g']] == 'q' else ('0' if GAPS[e['g']] == 0.0 else 'ms')]
               for e in doc['events']]
    return res


def run_shard(ctx):
    n = 300 if ctx.tier == 'quick' else 4000
    ctx.explore(case_strategy(), n)


MANIFEST_ENTRY = {
    'technique': 'property-based testing (Hypothesis): generated distributed-network event histories against a real '
                 'logged-in SoulSeekClient on a virtual-time loop with in-memory TCP, simulated server and scripted '
                 'distributed peers; structural invariants + "last told" fold vs. derived position as oracle',
    'level_text': 'Generated-history exploration (<= 10 events over 3..4 scripted peers, ms-level and same-instant '
                  'interleavings with the sends the events trigger): after every quiescent point the parent/children '
                  'structure, the legitimacy of every child addition and the fold of everything told to the server and '
                  'to each child are compared with the position derived from the current parent. Sampled histories; no '
                  'proof.',
    'level_note': 'Trusted base: virtual loop, in-memory TCP (ordered, lossless, 1 ms latency, generated write back '
                  'pressure on the server link, clear and obfuscated listening ports), simulated server, the '
                  'small reference model in checks/c13.py (child limit formula of SOULSEEK.rst, potential-parent '
                  'cache of 20). Position checks only while logged in; announced roots never equal the own user name.',
}

# One deterministic, minimal history per genuine-defect kind found on the pinned tree (see scratch/fixes/C13-*.diff).
_P3 = [{'direct': 0, 'indirect': 0, 'auto': None}] * 3
_PARENT = [{'op': 'pp', 'who': [1], 'g': 5}, {'op': 'both', 'p': 1, 'k': 0, 'v': 1, 'r': 4, 'g': 5}]
_OFFLINE_CHILD = {'peers': _P3, 'events': [{'op': 'drop', 'reset': True, 'g': 5}, {'op': 'in', 'p': 0, 'g': 5},
                                           {'op': 'adv', 'd': 1, 'g': 5}]}
KNOWN_REPLAYS = {
    # the parent announces a new level: the children are told, the server is not (C13-1)
    'C13/server-told-wrong-position:parent-reannounced':
        {'peers': _P3, 'events': _PARENT + [{'op': 'plvl', 'v': 3, 'g': 5}]},
    # a child announces level and root while there is no parent: it becomes parent and stays child (C13-2)
    'C13/parent-among-children':
        {'peers': _P3, 'events': [{'op': 'in', 'p': 0, 'g': 5}, {'op': 'both', 'p': 0, 'k': 0, 'v': 1, 'r': 4, 'g': 5}]},
    # no server session: _get_advertised_branch_values dereferences the missing session (C13-3)
    'C13/child-never-told-position:added-while-logged-out': _OFFLINE_CHILD,
    'C13/unexpected-exception:AttributeError@_get_advertised_branch_values': _OFFLINE_CHILD,
    # parent lost while logged out: children are not told, neither then nor after the re-login (C13-3)
    'C13/child-told-wrong-position:changed-while-logged-out':
        {'peers': _P3, 'events': [{'op': 'in', 'p': 0, 'g': 5}] + _PARENT + [
            {'op': 'drop', 'reset': True, 'g': 5}, {'op': 'pclose', 'g': 5}, {'op': 'adv', 'd': 1, 'g': 5}]},
    # _set_parent disconnects a candidate connection that is still connecting (race mode: its connect task survives
    # the cancellation); the connect completes afterwards: CLOSED -> CONNECTED, unregistered; it later becomes parent
    # (C13-4, connection layer)
    # regression histories for behaviours the random part reaches less often (quiet on the pinned tree):
    # a child on the obfuscated listening port / a child the client connected to on its obfuscated port must be told
    # its position in plain frames, also when the parent announces new values
    'C13/child-told-unreadable-frames':
        {'peers': _P3, 'events': [{'op': 'in', 'p': 0, 'obf': True, 'g': 5}] + _PARENT + [{'op': 'plvl', 'v': 3, 'g': 5}]},
    'C13/child-told-unreadable-frames#client-connects-to-obfuscated-port':
        {'peers': _P3, 'obfuscate': True, 'events': [{'op': 'cin', 'p': 0, 'g': 5}] + _PARENT},
    # slow server link (drain 50 ms): the parent is lost and a connected candidate announces 2 ms later, while
    # _unset_parent still waits for the server send: what the child is told LAST must be the new parent's position
    'C13/child-told-wrong-position:parent-set':
        {'peers': _P3, 'drain': 2, 'events': [{'op': 'in', 'p': 0, 'g': 5}] + _PARENT + [
            {'op': 'pp', 'who': [2], 'g': 5}, {'op': 'pclose', 'g': 3},
            {'op': 'both', 'p': 2, 'k': 0, 'v': 3, 'r': 5, 'g': 5}]},
    # three children, the write to the first one fails (ECONNRESET on drain) while the parent's new level is fanned
    # out: the failing child goes, the two others must still be told the new position
    'C13/child-told-wrong-position:parent-reannounced':
        {'peers': _P3, 'speed': 5, 'events': [{'op': 'in', 'p': 0, 'g': 5}, {'op': 'in', 'p': 2, 'g': 5},
                                              {'op': 'in', 'p': 0, 'g': 5}] + _PARENT + [
            {'op': 'wfail', 'k': 0, 'g': 0}, {'op': 'plvl', 'v': 4, 'g': 5}]},
    'C13/parent-not-live:unregistered':
        {'peers': [_P3[0], _P3[0], {'direct': 2, 'indirect': 1, 'auto': None}], 'race': True, 'events': [
            {'op': 'pp', 'who': [2], 'g': 5}, {'op': 'both', 'p': 2, 'k': 0, 'v': 1, 'r': 5, 'g': 0},
            {'op': 'pp', 'who': [0], 'g': 5}, {'op': 'pclose', 'g': 5},
            {'op': 'both', 'p': 0, 'k': 0, 'v': 2, 'r': 3, 'g': 5}]},
}
