"""C18 — search results reach only live requests; removal and timeouts are exact; Timer never fires for a
cancelled / superseded deadline (DESIGN §3 C18).

Three case families, ``run_case`` dispatches on ``case["t"]`` (unknown tags give an empty result):

* ``search`` — a real ``SoulSeekClient`` logged in at the simulated server, driven through an operation list and
  compared with a ticket -> (created, deadline, removed) reference model;
* ``timer``  — ``aioslsk.tasks.Timer`` alone on the virtual loop;
* ``ticket`` — ``aioslsk.utils.ticket_generator`` (pure).
"""
from __future__ import annotations

import asyncio
import gc
import math

from hypothesis import strategies as st

from vfw import simloop, simnet, simworld
from vfw.runner import CaseResult

PROPERTY = 'C18'
LEVEL = 'exploration'
RULE = (
    "Family 'search': a real SoulSeekClient logged in at the simulated server; case = initial "
    "searches.send.request_timeout in {0,1,2,3} s, wishlist_request_timeout in {-1 (server interval),0,1,2,3}, "
    "store_results, <=3 wishlist entries (enabled/disabled) and <=20 operations on a 0.5 s grid: search / "
    "search_room / search_user through client.searches (and, in a quarter of the cases, through "
    "client.execute(GlobalSearchCommand / RoomSearchCommand / UserSearchCommand)); remove_request(ticket | request "
    "object) of a live request (optionally preferring one whose deadline is the current instant); PeerSearchReply "
    "from a scripted peer over a fresh peer connection (ticket of a live request, of a removed / expired request, or "
    "unknown; 1-2 copies; arriving 2^-10 s after the current instant, exactly on the next grid instant, or exactly "
    "on the deadline of the addressed request); one server-sent WishlistInterval (1..3 s, arriving on or 2^-10 s "
    "off the grid; starts the wishlist rounds, whose requests are learnt from SearchRequestSentEvent); race = a "
    "reply for a live request arrives on the next grid instant and, once its bytes have been delivered, "
    "remove_request for that request is called k = 0..8 loop iterations later within the same virtual instant; a "
    "search may be removed while its SearchRequestSentEvent is being delivered: by a plain listener, by an async "
    "listener after 1..6 loop iterations or one grid step of virtual time, or by another task while such a slow "
    "listener is awaited (creation = the instant the SearchRequestSentEvent is emitted, i.e. when the message has been sent and the timer is armed, whatever the listeners do afterwards); a search may meet "
    "a fault on the server link while its message is sent: the write fails (connection lost, the call raises), "
    "the write meets back pressure for one grid step (the message is sent, the request registered and reported a grid step later), "
    "or the caller gives up after half a grid step of back pressure (asyncio.wait_for): a call that raised or was "
    "cancelled must leave no new entry in SearchManager.requests and a peer reply for the ticket it used up must "
    "produce no SearchResultEvent; the server may close / reset the server connection (session destroyed) and the "
    "client may later connect_server() + login() again; the same client object may be stopped and started again "
    "(+ login), staying down for 0..2 grid steps; pinned on the unchanged tree and modelled exactly so: requests, "
    "their tickets and their timers survive both (deadlines unchanged, removal is reported at the deadline even while "
    "stopped), peer replies that reach the client are reported whether or not a session exists (replies whose peer "
    "connection overlaps a stop() are not judged); "
    "scheduled replies optionally travel over a peer connection established beforehand (so that the reply is handled "
    "in the loop iteration in which a timer of the same instant runs); "
    "0..3 generated extra SearchRequestRemovedEvent listeners (plain function, coroutine without a wait, coroutine "
    "waiting 1..6 loop iterations or one grid step) registered between the recorder and a plain last listener; "
    "change of request_timeout (and optionally wishlist_request_timeout / store_results) at run time, applied to "
    "client.settings in place, by assigning a new searches.send section or by assigning a new searches section "
    "(model_copy with the other values preserved) - the initial values are applied in one of these three ways after "
    "the client was created; a request's deadline uses the values client.settings holds when the request is made, "
    "running requests keep theirs, store_results is the value in force when the reply arrives; advance(n*0.5 s); advance to -1/0/+1 grid steps around the deadline of a live "
    "request; step(n loop iterations) so that several operations share one virtual instant. Oracle (reference "
    "model ticket -> request object, creation time, deadline = creation + timeout in force, manual removal time): "
    "every reply produces exactly one SearchResultEvent iff a request with its ticket is live at arrival, carrying "
    "that request object, the ticket and the reply's payload (and the reply is stored in request.results iff "
    "store_results); a new request never gets the ticket of a live request; a request with a deadline gets exactly "
    "one SearchRequestRemovedEvent, at the deadline (|dt| <= 1e-6 s), none if it has no timeout or the deadline lies "
    "beyond the end, and that report reaches every registered listener exactly once and every coroutine listener "
    "runs to its end; a manually removed request gets no result event, no removal event at its old deadline (at "
    "most one at the instant of the manual removal is tolerated), no exception in the loop's error record, and "
    "SearchManager.requests equals the model's live set at every half-grid checkpoint. Events on the same virtual "
    "instant as a deadline / manual removal are ties: by virtual time both outcomes are accepted, an error never "
    "is; within and outside ties the order of observations (per-case sequence counter over all events and over the "
    "return of remove_request) must be legal: a SearchResultEvent for a request never comes after that request's "
    "SearchRequestRemovedEvent nor after remove_request() for it has returned. The history "
    "ends with 3.5 s of quiet time so that every deadline armed by an operation has passed. Once two live requests "
    "share a ticket the case is reported and not evaluated further; observations about a ticket whose request was "
    "not removed at its deadline, or whose stale timer ran after a manual removal, are not reported a second time. "
    "Family 'timer': Timer(timeout, callback) alone; operations start / cancel / reschedule(None | t) / advance / "
    "step on a 0.25 s grid, optionally the callback re-arms the timer itself; model = at most one armed deadline; "
    "the callback must run exactly once at every armed deadline that was neither cancelled nor superseded before "
    "it, and never at another time (only the first wrong run of a case is reported: later ones are consequences). "
    "Family 'ticket': ticket_generator(initial) for initial near powers of two and near 2^32: values are uint32, "
    "consecutive (+1) until 0xFFFFFFFF and restart at `initial` (documented), hence pairwise distinct within any "
    "window shorter than the period. "
    "Non-trivial = a reply or manual removal within one grid step of a deadline (search), a cancel or reschedule "
    "after a reschedule, or an operation on the instant of a deadline (timer), a draw window crossing a power of two "
    "(ticket); distinct = distinct case document."
)
ASSUMPTIONS = [
    "every network delivery has strictly positive latency (2^-10 s on the links used here); all driver actions, "
    "deadlines and arrivals are exact binary fractions, so equality of virtual instants is exact",
    "manual removal: the code emits no SearchRequestRemovedEvent for remove_request and docs/source/USAGE.rst "
    "mentions the event only under 'Automatically Removing Requests'; the check therefore accepts zero removal "
    "events for a manually removed request and also tolerates exactly one at the instant of the manual removal, but "
    "never one at the superseded deadline",
    "remove_request is only called for requests the model considers live (or tied with their deadline, where a "
    "KeyError for the already expired request is accepted); removing unknown requests is outside the property",
    "searches.send.request_timeout is documented (docs/source/SETTINGS.rst) as 'Timeout for sent search requests'; "
    "requests made through the search commands of aioslsk.commands are sent search requests too, so the same "
    "deadline is expected for them",
    "the server sends WishlistInterval at most once per session (as the real server does); a second message on the "
    "instant of a wishlist round would make the timeout of that round ambiguous",
    "Timer.start() on an armed timer is not exercised (the documented re-arm API is reschedule()); a start "
    "operation on an armed timer is executed as reschedule()",
    "wrap-around of the 32-bit ticket counter inside a SearchManager is not reached (<= 20 operations and <= 3 "
    "wishlist entries per round); the generator itself is checked around 2^32 in family 'ticket'",
    "duplicate replies travel over separate peer connections (the client closes a peer connection after the first "
    "search reply, so a second reply on the same connection need not be read)",
]
BUDGET_S = {'quick': 150, 'thorough': 1500}

TICK = 0.5                      # search machine grid
LAT = 2.0 ** -10                # link latency (exact binary fraction >= simnet.MIN_LATENCY)
T0 = simloop.START_TIME + 1.0   # first driver instant (login has finished long before)
EPS = 1e-6
TAIL_TICKS = 7                  # 3.5 s > largest timeout (3 s)
TTICK = 0.25                    # timer machine grid
UNKNOWN_TICKET_BASE = 1_000_000
SEARCH_KINDS = ('net', 'room', 'user')
# the timer of a request removed with remove_request() still runs its callback at the old deadline (seen as a
# KeyError in the loop's error record or as a SearchRequestRemovedEvent at that deadline)
STALE_TIMER_KIND = 'C18/timer-of-manually-removed-request-fires'


# ---------------------------------------------------------------------------
# strategies

_search_op = st.fixed_dictionaries({
    'op': st.just('search'), 'kind': st.sampled_from(SEARCH_KINDS),
    'via': st.sampled_from(['api', 'api', 'cmd']), 'q': st.integers(0, 3),
    # removal of the request while its SearchRequestSentEvent is being delivered: by a plain listener, by an async
    # listener after a pause, or by another task while a slow async listener is awaited
    'hook': st.sampled_from([None, None, None, None, None, 'sync', 'async', 'task']),
    'slow': st.sampled_from(['steps', 'steps', 'tick']), 'n': st.integers(1, 6),
    'by': st.sampled_from(['ticket', 'request']),
    # fault on the server link while the search message is being sent (only without a hook)
    'fault': st.sampled_from([None] * 9 + ['slow', 'cancel', 'cancel', 'fail'])})
_remove_op = st.fixed_dictionaries({
    'op': st.just('remove'), 'i': st.integers(0, 5), 'by': st.sampled_from(['ticket', 'request']),
    'pref': st.sampled_from(['any', 'due'])})
_reply_op = st.fixed_dictionaries({
    'op': st.just('reply'), 'target': st.sampled_from(['live', 'live', 'live', 'stale', 'stale', 'unknown']),
    'i': st.integers(0, 5), 'n': st.sampled_from([1, 1, 1, 2]),
    'when': st.sampled_from(['now', 'now', 'next', 'deadline']), 'pre': st.booleans()})
_race_op = st.fixed_dictionaries({
    'op': st.just('race'), 'i': st.integers(0, 5), 'k': st.sampled_from([0, 1, 1, 2, 2, 3, 4, 5, 6, 8]), 'by': st.sampled_from(['ticket', 'request']),
    'pre': st.booleans()})
_adv_op = st.fixed_dictionaries({'op': st.just('adv'), 'n': st.sampled_from([1, 1, 1, 2, 2, 3, 4, 5, 6])})
_advto_op = st.fixed_dictionaries({'op': st.just('adv_to'), 'i': st.integers(0, 5), 'off': st.sampled_from([-1, 0, 0, 1])})
_step_op = st.fixed_dictionaries({'op': st.just('step'), 'n': st.integers(1, 6)})
# change of the searches.send settings at run time: in place, by replacing the `send` section, or by replacing the
# whole `searches` section; v = request_timeout, wl / store = None keeps the current value
_settimeout_op = st.fixed_dictionaries({
    'op': st.just('set_timeout'), 'v': st.sampled_from([0, 1, 2, 3]),
    'how': st.sampled_from(['inplace', 'send', 'searches']),
    'wl': st.sampled_from([None, None, None, -1, 0, 1, 2, 3]), 'store': st.sampled_from([None, None, True, False])})
_wish_op = st.fixed_dictionaries({'op': st.just('wish'), 'interval': st.sampled_from([1, 1, 2, 3]),
                                  'when': st.sampled_from(['now', 'next'])})

# the server connection is lost (the server closes / resets it) and later re-established with a new login; the same
# client object is stopped and started again (+ login), optionally staying down for a grid step
_lose_op = st.fixed_dictionaries({'op': st.just('lose'), 'kind': st.sampled_from(['eof', 'reset'])})
_relogin_op = st.fixed_dictionaries({'op': st.just('relogin')})
_restart_op = st.fixed_dictionaries({'op': st.just('restart'), 'gap': st.sampled_from([0, 0, 1, 2])})

_search_ops = st.lists(
    st.one_of(_search_op, _search_op, _search_op, _remove_op, _remove_op, _reply_op, _reply_op, _reply_op,
              _race_op, _race_op, _adv_op, _adv_op, _advto_op, _advto_op, _step_op, _settimeout_op, _settimeout_op, _wish_op,
              _lose_op, _relogin_op, _restart_op),
    min_size=0, max_size=19).flatmap(lambda ops: _search_op.map(lambda first: [first] + ops))

search_strategy = st.fixed_dictionaries({
    't': st.just('search'),
    'timeout': st.sampled_from([0, 1, 1, 2, 2, 3]),
    'wl_timeout': st.sampled_from([-1, -1, -1, 0, 1, 2, 3]),
    'store': st.booleans(),
    'cmds': st.sampled_from([False, False, False, True]),
    'init_how': st.sampled_from(['inplace', 'send', 'searches']),   # how the initial values are applied after start
    'wishlist': st.lists(st.tuples(st.integers(0, 3), st.sampled_from([True, True, False])).map(list), max_size=3),
    # further SearchRequestRemovedEvent listeners between the recorder (first) and a plain last listener
    'rm_listeners': st.lists(st.tuples(st.sampled_from(['sync', 'async', 'steps', 'steps', 'tick']),
                                       st.integers(1, 6)).map(list), max_size=3),
    'ops': _search_ops,
})

_t_ops = st.lists(
    st.one_of(
        st.fixed_dictionaries({'op': st.just('start')}),
        st.fixed_dictionaries({'op': st.just('cancel')}),
        st.fixed_dictionaries({'op': st.just('resched'), 't': st.sampled_from([None, None, 1, 2, 3, 4, 6])}),
        st.fixed_dictionaries({'op': st.just('resched'), 't': st.sampled_from([None, None, 1, 2, 3, 4, 6])}),
        st.fixed_dictionaries({'op': st.just('adv'), 'n': st.sampled_from([1, 1, 2, 2, 3, 4, 5, 8])}),
        st.fixed_dictionaries({'op': st.just('adv'), 'n': st.sampled_from([1, 1, 2, 2, 3, 4, 5, 8])}),
        st.fixed_dictionaries({'op': st.just('step'), 'n': st.integers(1, 6)}),
    ), min_size=1, max_size=20)

timer_strategy = st.fixed_dictionaries({
    't': st.just('timer'),
    'timeout': st.sampled_from([1, 2, 2, 3, 4, 4, 6, 8]),
    'cb_rearm': st.sampled_from([0, 0, 0, 1, 2]),
    'ops': _t_ops,
})

_BOUNDARIES = [0, 1, 2 ** 8, 2 ** 15, 2 ** 16, 2 ** 24, 2 ** 31, 2 ** 32 - 1]
ticket_strategy = st.fixed_dictionaries({
    't': st.just('ticket'),
    'initial': st.one_of(
        st.tuples(st.sampled_from(_BOUNDARIES), st.integers(-70, 3)).map(lambda bo: max(0, min(2 ** 32 - 1, bo[0] + bo[1]))),
        st.integers(0, 2 ** 32 - 1)),
    'n': st.integers(1, 150),
})


# ---------------------------------------------------------------------------
# helpers

def _int(v, lo, hi, default):
    if isinstance(v, bool) or not isinstance(v, (int, float)):
        return default
    try:
        v = int(v)
    except Exception:
        return default
    return max(lo, min(hi, v))


def _begin_case():
    """Collect what the previous case left behind and freeze everything that is alive now (modules, Hypothesis'
    growing search state): the full collection at the end of the case (``_collect``) then only looks at the objects
    this case created. Without this the cost per case grows with the number of cases already run."""
    gc.collect()
    gc.freeze()


def _collect():
    """Full collection so that dead tasks report 'exception was never retrieved' to the loop's handler."""
    gc.collect()


async def _until(loop, when):
    """Sleep until the exact virtual instant ``when`` (no float addition on the way)."""
    if when <= loop.time():
        return
    fut = loop.create_future()
    loop.call_at(when, lambda: fut.done() or fut.set_result(None))
    await fut


def _run_world(main):
    """Like simworld.run_world but the server link has the exact binary latency LAT."""
    keep = []

    async def _main(loop):
        world = simworld.World(loop, server_latency=LAT)
        keep.append(world)
        return await main(world)
    try:
        return simloop.run_case_on_loop(_main)
    finally:
        simnet.SimNet.uninstall()
        for world in keep:
            # the closed loop stays reachable (virtual time namespace) until the next case starts; cut what hangs
            # off it so that the client of this case is garbage now and not frozen by _begin_case of the next one
            world.loop.set_exception_handler(None)
            world.clients.clear()
            world.server.clients.clear()
            world.server.scripted_peers.clear()
            world.peers.clear()


# ---------------------------------------------------------------------------
# family 'search'

def _sanitise_search(case):
    ops = []
    cmds = bool(case.get('cmds'))
    wished = False
    raw = case.get('ops')
    for o in (raw if isinstance(raw, list) else [])[:20]:
        if not isinstance(o, dict):
            continue
        name = o.get('op')
        if name == 'search':
            ops.append({'op': 'search', 'kind': o.get('kind') if o.get('kind') in SEARCH_KINDS else 'net',
                        'via': 'cmd' if (cmds and o.get('via') == 'cmd') else 'api', 'q': _int(o.get('q'), 0, 3, 0),
                        'hook': o.get('hook') if o.get('hook') in ('sync', 'async', 'task') else None,
                        'slow': 'tick' if o.get('slow') == 'tick' else 'steps', 'n': _int(o.get('n'), 1, 6, 1),
                        'by': 'request' if o.get('by') == 'request' else 'ticket',
                        'fault': o.get('fault') if o.get('fault') in ('slow', 'cancel', 'fail') else None})
        elif name == 'remove':
            ops.append({'op': 'remove', 'i': _int(o.get('i'), 0, 50, 0),
                        'by': 'request' if o.get('by') == 'request' else 'ticket',
                        'pref': 'due' if o.get('pref') == 'due' else 'any'})
        elif name == 'reply':
            ops.append({'op': 'reply', 'target': o.get('target') if o.get('target') in ('live', 'stale', 'unknown')
                        else 'live', 'i': _int(o.get('i'), 0, 50, 0), 'n': _int(o.get('n'), 1, 2, 1),
                        'when': o.get('when') if o.get('when') in ('next', 'deadline') else 'now',
                        'pre': bool(o.get('pre'))})
        elif name == 'race':
            ops.append({'op': 'race', 'i': _int(o.get('i'), 0, 50, 0), 'k': _int(o.get('k'), 0, 12, 1),
                        'by': 'request' if o.get('by') == 'request' else 'ticket', 'pre': bool(o.get('pre'))})
        elif name == 'adv':
            ops.append({'op': 'adv', 'n': _int(o.get('n'), 1, 8, 1)})
        elif name == 'adv_to':
            ops.append({'op': 'adv_to', 'i': _int(o.get('i'), 0, 50, 0), 'off': _int(o.get('off'), -1, 1, 0)})
        elif name == 'step':
            ops.append({'op': 'step', 'n': _int(o.get('n'), 1, 6, 1)})
        elif name == 'set_timeout':
            ops.append({'op': 'set_timeout', 'v': _int(o.get('v'), 0, 3, 0),
                        'how': o.get('how') if o.get('how') in ('inplace', 'send', 'searches') else 'inplace',
                        'wl': None if o.get('wl') is None else _int(o.get('wl'), -1, 3, -1),
                        'store': o.get('store') if isinstance(o.get('store'), bool) else None})
        elif name == 'lose':
            ops.append({'op': 'lose', 'kind': 'reset' if o.get('kind') == 'reset' else 'eof'})
        elif name == 'relogin':
            ops.append({'op': 'relogin'})
        elif name == 'restart':
            ops.append({'op': 'restart', 'gap': _int(o.get('gap'), 0, 2, 0)})
        elif name == 'wish' and not wished:
            wished = True
            ops.append({'op': 'wish', 'interval': _int(o.get('interval'), 1, 3, 1),
                        'when': 'next' if o.get('when') == 'next' else 'now'})
    wishlist = []
    rawl = case.get('wishlist')
    for item in (rawl if isinstance(rawl, list) else [])[:3]:
        if isinstance(item, list) and len(item) == 2:
            wishlist.append(('w%d' % _int(item[0], 0, 3, 0), bool(item[1])))
    return {
        'timeout': _int(case.get('timeout'), 0, 3, 0),
        'wl_timeout': _int(case.get('wl_timeout'), -1, 3, -1),
        'store': bool(case.get('store', True)),
        'init_how': case.get('init_how') if case.get('init_how') in ('inplace', 'send', 'searches') else 'inplace',
        'wishlist': wishlist,
        'rm_listeners': [(it[0], _int(it[1], 1, 6, 1))
                         for it in (case.get('rm_listeners') if isinstance(case.get('rm_listeners'), list) else [])[:3]
                         if isinstance(it, list) and len(it) == 2 and it[0] in ('sync', 'async', 'steps', 'tick')],
        'ops': ops,
    }


class _Req:
    __slots__ = ('n', 'src', 'obj', 'ticket', 'created', 'timeout', 'deadline', 'removed_at', 'remove_status',
                 'query', 'removed_seq')

    def __init__(self, n, src, obj, created, timeout):
        self.n = n
        self.src = src                  # 'api' | 'cmd' | 'wish'
        self.obj = obj
        self.ticket = obj.ticket
        self.query = obj.query
        self.created = created
        self.timeout = timeout          # None = keep indefinitely
        self.deadline = None if timeout is None else created + timeout
        self.removed_at = None
        self.remove_status = None       # model status at the manual removal ('live' | 'tie')
        self.removed_seq = None         # per-case sequence number taken when remove_request() returned

    def end(self):
        ends = [x for x in (self.deadline, self.removed_at) if x is not None]
        return min(ends) if ends else None

    def status(self, t, creation_tie=False):
        if t < self.created - EPS:
            return 'future'
        if creation_tie and abs(t - self.created) <= EPS:
            return 'tie'        # something arriving on the instant the request is being registered
        end = self.end()
        if end is None or t < end - EPS:
            return 'live'
        if abs(t - end) <= EPS:
            return 'tie'
        return 'dead'

    def describe(self):
        return (f'#{self.n} {self.src} ticket={self.ticket} query={self.query!r} created={self.created:.6f} '
                f'deadline={self.deadline} removed_at={self.removed_at}')


def _run_search(case) -> CaseResult:
    res = CaseResult()
    cfg = _sanitise_search(case)
    if not cfg['ops']:
        return res
    from aioslsk.commands import GlobalSearchCommand, RoomSearchCommand, UserSearchCommand
    from aioslsk.events import SearchRequestRemovedEvent, SearchRequestSentEvent, SearchResultEvent
    from aioslsk.network.connection import ConnectionState
    from aioslsk.protocol import messages as M
    from aioslsk.search.model import SearchType
    from aioslsk.settings import SearchSendSettings, WishlistSettingEntry

    reqs: list[_Req] = []
    by_obj: dict[int, _Req] = {}
    events = []          # (time, 'sent'|'removed'|'result', event, seq)
    seq = [0]            # per-case sequence counter: order of events and of remove_request() returns

    def next_seq():
        seq[0] += 1
        return seq[0]
    replies = []         # dicts: id, ticket, arrival, cls
    wish_arrivals = []   # (arrival time, interval)
    checkpoints = []     # (time, {ticket: id(obj)})
    notes = {'dup': None, 'ties': set(), 'near': False}
    violations = []      # (kind, detail, ticket, time) found while driving
    conn_at = {}         # reply id -> instant at which its peer connection was made (None: client not listening)
    stops = []           # [stop instant, instant at which start() + login() had finished]
    wl_changes = []      # instants at which the wishlist timeout was changed
    store_changes = []   # (instant, new value) of searches.send.store_results
    uncertain = {}       # ticket -> creation instant of wishlist requests whose timeout is ambiguous
    rm_log = []          # (listener index, 'entered'|'finished', id(request), time) of the extra removal listeners

    def add_req(src, obj, created, timeout, now, registered_before=()):
        r = _Req(len(reqs), src, obj, created, timeout)
        for other in reqs:
            # live by the model, or (on the instant of its deadline) observed to be still registered just before
            live = other.status(now) == 'live' or (other.status(now) == 'tie' and id(other.obj) in registered_before)
            if other.ticket == r.ticket and live and notes['dup'] is None:
                # client.searches (search*, wishlist) draws from one generator, the search commands from another
                gens = 'command-vs-manager-generator' if (other.src == 'cmd') != (src == 'cmd') else \
                    ('command-generator' if src == 'cmd' else 'manager-generator')
                notes['dup'] = (f'C18/duplicate-live-ticket:{gens}',
                                f'new request {r.describe()} got the ticket of live request {other.describe()}')
        reqs.append(r)
        by_obj[id(obj)] = r
        return r

    async def main(world: simworld.World):
        loop = world.loop
        settings = simworld.mk_settings('me')
        for q, enabled in cfg['wishlist']:
            settings.searches.wishlist.append(WishlistSettingEntry(query=q, enabled=enabled))
        bob = world.add_peer('bob', latency=LAT)
        client = await world.start_client(settings)
        manager = client.searches

        class Listener:
            async def on_sent(self, event):
                now = loop.time()
                events.append((now, 'sent', event, next_seq()))
                req = event.query
                if req.search_type != SearchType.WISHLIST and hook['op'] is not None:
                    hook['req'] = req
                    hook['sent_at'] = now
                if req.search_type == SearchType.WISHLIST and id(req) not in by_obj:
                    if state['wl_timeout'] >= 0:
                        timeout = state['wl_timeout'] or None
                    else:
                        known = [iv for at, iv in wish_arrivals if at <= now + EPS]
                        timeout = known[-1] if known else None
                    r = add_req('wish', req, now, timeout, now)
                    if any(abs(now - at) <= EPS for at in wl_changes):
                        # the wishlist timeout was changed on the instant of this round: either value may apply
                        uncertain[r.ticket] = now

            def on_sent_plain(self, event):
                if hook['op'] is not None and hook['op']['hook'] == 'sync' \
                        and event.query.search_type != SearchType.WISHLIST:
                    hook_remove(event.query)

            async def on_sent_slow(self, event):
                op = hook['op']
                if op is None or op['hook'] not in ('async', 'task') or event.query.search_type == SearchType.WISHLIST:
                    return
                hook['req'] = event.query
                if op['slow'] == 'tick':
                    await _until(loop, hook['T'] + TICK)
                else:
                    await simloop.step(op['n'] + (3 if op['hook'] == 'task' else 0))
                if op['hook'] == 'async':
                    hook_remove(event.query)

            async def on_removed(self, event):
                events.append((loop.time(), 'removed', event, next_seq()))

            async def on_result(self, event):
                events.append((loop.time(), 'result', event, next_seq()))

        hook = {'op': None, 'T': None, 'req': None, 'removed': None, 'sent_at': None}

        def server_down():
            conn = client.network.server_connection
            writer = getattr(conn, '_writer', None)
            return (writer is None or writer.transport.dead or writer.transport.is_closing()
                    or not client.session or conn.state != ConnectionState.CONNECTED)

        def hook_remove(req):
            """remove_request from inside / during the delivery of SearchRequestSentEvent (errors are recorded here:
            the event bus swallows exceptions of listeners)."""
            op = hook['op']
            try:
                manager.remove_request(req.ticket if op['by'] == 'ticket' else req)
            except Exception as exc:
                violations.append((f'C18/unexpected-exception:{type(exc).__name__}@remove_request',
                                   f'removing {req!r} while its SearchRequestSentEvent is delivered: {exc!r}',
                                   req.ticket, loop.time()))
                return
            hook['removed'] = (loop.time(), next_seq())

        async def concurrent_remover(op):
            """Another task: waits until the sent event is being delivered to the slow listener, then removes."""
            for _ in range(40):
                if hook['req'] is not None:
                    break
                await simloop.step(1)
            else:
                return
            if op['slow'] == 'tick':
                await _until(loop, hook['T'] + TICK / 4)
            else:
                await simloop.step(min(op['n'], 2))
            hook_remove(hook['req'])

        listener = Listener()   # the event bus keeps weak references only
        client.events.register(SearchRequestSentEvent, listener.on_sent)
        client.events.register(SearchRequestSentEvent, listener.on_sent_plain)
        client.events.register(SearchRequestSentEvent, listener.on_sent_slow)
        client.events.register(SearchRequestRemovedEvent, listener.on_removed)     # first: time / order of the emit

        class RemovalListener:
            """A user's listener of SearchRequestRemovedEvent: plain, coroutine without a wait, coroutine that waits
            k loop iterations or one grid step before it is done."""

            def __init__(self, idx, mode, k):
                self.idx, self.mode, self.k = idx, mode, k
                self.handler = {'sync': self.plain, 'last': self.plain, 'async': self.fast, 'steps': self.steps,
                                'tick': self.tick}[mode]

            def note(self, what, event):
                rm_log.append((self.idx, what, id(event.query), loop.time()))

            def plain(self, event):
                self.note('entered', event)
                self.note('finished', event)

            async def fast(self, event):
                self.note('entered', event)
                self.note('finished', event)

            async def steps(self, event):
                self.note('entered', event)
                await simloop.step(self.k)
                self.note('finished', event)

            async def tick(self, event):
                self.note('entered', event)
                await asyncio.sleep(TICK)
                self.note('finished', event)

        rm_listeners = [RemovalListener(i, mode, k) for i, (mode, k) in enumerate(cfg['rm_listeners'])]
        rm_listeners.append(RemovalListener(len(rm_listeners), 'last', 0))
        for lst in rm_listeners:    # strong references stay in this list (the bus holds weak ones)
            client.events.register(SearchRequestRemovedEvent, lst.handler)
        client.events.register(SearchResultEvent, listener.on_result)

        await _until(loop, T0)
        state = {'tick': 0, 'timeout': cfg['timeout'], 'wl_timeout': cfg['wl_timeout'], 'store': cfg['store'],
                 'reply_id': 0}

        def apply_settings(how):
            """Make client.settings.searches.send carry the model's current values: in place, by replacing the
            `send` section, or by replacing the whole `searches` section (other values preserved)."""
            cs = client.settings
            if how == 'inplace':
                cs.searches.send.request_timeout = state['timeout']
                cs.searches.send.wishlist_request_timeout = state['wl_timeout']
                cs.searches.send.store_results = state['store']
                return
            send = SearchSendSettings(request_timeout=state['timeout'], store_results=state['store'],
                                      wishlist_request_timeout=state['wl_timeout'])
            if how == 'send':
                cs.searches.send = send
            else:
                cs.searches = cs.searches.model_copy(update={'send': send})

        apply_settings(cfg['init_how'])     # after the client (and its SearchManager) has been created

        def now_t():
            return T0 + state['tick'] * TICK

        def checkpoint():
            checkpoints.append((loop.time(), {t: id(o) for t, o in manager.requests.items()}))

        async def advance(n):
            target = state['tick'] + n
            await _until(loop, T0 + target * TICK - TICK / 2)
            checkpoint()
            state['tick'] = target
            await _until(loop, now_t())

        def reply_msg(ticket, rid):
            return M.PeerSearchReply.Request(
                'bob', ticket, results=[], has_slots_free=True, avg_speed=rid, queue_size=rid % 7,
                locked_results=[])

        def peer_connect(rid):
            """bob connects to the client's listening port (None while the client is stopped)."""
            if not world.net.can_connect_in(world.client_port(False)):
                conn_at[rid] = None
                return None
            conn_at[rid] = loop.time()
            return bob.connect('P')

        def deliver(ticket, rid, holder=None):
            link = peer_connect(rid)
            if link is None:
                return
            link.send_msg(reply_msg(ticket, rid))
            if holder is not None:
                holder.append(link)

        def schedule(ticket, rid, arrival, pre, holder=None):
            """The reply bytes reach the client exactly at ``arrival``; with ``pre`` the peer connection is
            established now and only the reply travels later (fewer loop iterations between arrival and handling)."""
            if pre:
                link = peer_connect(rid)
                if link is None:
                    return
                loop.call_at(arrival - LAT, link.send_msg, reply_msg(ticket, rid))
                if holder is not None:
                    holder.append(link)
            else:
                loop.call_at(arrival - LAT, deliver, ticket, rid, holder)

        def do_remove(r, by, T):
            status = r.status(T)
            if any(o is not r and o.ticket == r.ticket and o.status(T) in ('live', 'tie') for o in reqs):
                return          # the ticket has been handed out again: remove_request(ticket) would be ambiguous
            try:
                manager.remove_request(r.ticket if by == 'ticket' else r.obj)
            except KeyError as exc:
                if status == 'live':
                    violations.append(('C18/unexpected-exception:KeyError@remove_request',
                                       f'removing live request {r.describe()} at {T} raised {exc!r}',
                                       r.ticket, T))
                    return
            except Exception as exc:
                violations.append((f'C18/unexpected-exception:{type(exc).__name__}@remove_request',
                                   f'removing {r.describe()} at {T} raised {exc!r}', r.ticket, T))
                return
            r.removed_seq = next_seq()
            if manager.requests.get(r.ticket) is r.obj:
                violations.append(('C18/requests-table:still-registered-after-remove', r.describe(),
                                   r.ticket, T))
            r.removed_at = T
            r.remove_status = status
            if status == 'tie':
                notes['ties'].add('remove-at-deadline')
            if r.deadline is not None and abs(r.deadline - T) <= TICK + EPS:
                notes['near'] = True

        for op in cfg['ops']:
            T = now_t()
            name = op['op']
            if name == 'search':
                before = {id(o) for o in manager.requests.values()}
                query = 'q%d' % op['q']
                timeout = state['timeout'] or None
                hook.update(op=op if op['hook'] else None, T=T, req=None, removed=None, sent_at=None)
                hook['op'] = hook['op'] or {'hook': None}     # always capture the request of the sent event
                remover = asyncio.ensure_future(concurrent_remover(op)) if op['hook'] == 'task' else None

                async def call():
                    if op['via'] == 'api':
                        if op['kind'] == 'net':
                            return await manager.search(query)
                        if op['kind'] == 'room':
                            return await manager.search_room('room', query)
                        return await manager.search_user('bob', query)
                    if op['kind'] == 'net':
                        await client.execute(GlobalSearchCommand(query))
                    elif op['kind'] == 'room':
                        await client.execute(RoomSearchCommand('room', query))
                    else:
                        await client.execute(UserSearchCommand('bob', query))
                    return None

                # fault on the server link while the search message is sent: the write fails (connection lost), or
                # the write meets back pressure for one grid step ('slow') and the caller gives up half way ('cancel')
                fault = op['fault'] if not op['hook'] else None
                writer = getattr(client.network.server_connection, '_writer', None)
                tr = writer.transport if writer is not None else None
                link_down = server_down()
                if link_down:
                    fault = None    # (lost by an earlier write failure: a search may now raise, as documented)
                if fault == 'fail':
                    tr.fail_writes = ConnectionResetError('sim: write failure')
                elif fault in ('slow', 'cancel'):
                    tr.drain_delay = TICK
                failed = None
                obj = None
                try:
                    if fault == 'cancel':
                        obj = await asyncio.wait_for(call(), TICK / 2)
                    else:
                        obj = await call()
                    if op['via'] == 'cmd':
                        # (a wishlist round may register its own requests while the command is awaited)
                        new = [o for o in manager.requests.values() if id(o) not in before and
                               id(o) not in by_obj and o.search_type != SearchType.WISHLIST]
                        if hook['req'] is not None:
                            new = [hook['req']]     # (may already have been removed again by a listener)
                        if len(new) != 1:
                            violations.append(('C18/command-search-not-registered',
                                               f'{len(new)} new entries in SearchManager.requests after {op}',
                                               None, T))
                        else:
                            obj = new[0]
                except Exception as exc:
                    if fault == 'cancel' and isinstance(exc, TimeoutError):
                        failed = 'cancelled'
                    elif fault == 'fail' or link_down or server_down():
                        failed = 'raised'   # (the server link went down before / while the message was sent)
                    else:
                        violations.append((f'C18/unexpected-exception:{type(exc).__name__}@search:{op["via"]}',
                                           f'{op} raised {exc!r}', None, T))
                        failed = 'raised'
                    obj = None
                returned_at = loop.time()
                if tr is not None:
                    tr.drain_delay = 0.0
                if remover is not None:
                    await remover
                removed, hook['op'] = hook['removed'], None
                # a slow listener / a slow write (also one left over by another writer of the same link) held the call:
                # back onto the grid
                ticks = math.ceil((loop.time() - T0 - EPS) / TICK)
                if ticks > state['tick']:
                    state['tick'] = ticks
                    await _until(loop, now_t())
                if failed is not None:
                    notes['failed:' + failed] = True
                    # the call did not return a request: nothing may be registered for it, nothing may be reported
                    left = [o for o in manager.requests.values() if id(o) not in before and
                            id(o) not in by_obj and o.search_type != SearchType.WISHLIST]
                    if left:
                        violations.append((f'C18/failed-search-left-request-registered:{failed}',
                                           f'{op} ({fault}) did not return, yet SearchManager.requests holds '
                                           f'{[(o.ticket, o.query, o.timer is not None) for o in left]}', None, T))
                    # a peer answers the ticket that the failed call has (probably) used up
                    guess = max([r.ticket for r in reqs] + [o.ticket for o in left] + [1]) + (0 if left else 1)
                    state['reply_id'] += 1
                    deliver(guess, state['reply_id'])
                    replies.append({'id': state['reply_id'], 'ticket': guess, 'arrival': now_t() + LAT,
                                    'cls': 'failed-call', 'dup': False})
                if obj is None:
                    continue
                if obj.query != query:
                    violations.append(('C18/request-carries-wrong-query', f'{op}: {obj.query!r}', None, T))
                # the request is registered (and its timer armed) when the message has been sent: the instant of its
                # SearchRequestSentEvent; a slow write delays that
                created = hook['sent_at'] if hook['sent_at'] is not None else returned_at
                r = add_req(op['via'], obj, created, timeout, created, before)
                if removed is not None:
                    r.removed_at, r.removed_seq = removed
                    r.remove_status = 'live'
                    notes['hook'] = True
                    if manager.requests.get(r.ticket) is r.obj:
                        violations.append(('C18/requests-table:still-registered-after-remove', r.describe(),
                                           r.ticket, r.removed_at))
            elif name == 'remove':
                pop = [r for r in reqs if r.removed_at is None and r.status(T) in ('live', 'tie')]
                if not pop:
                    continue
                due = [r for r in pop if r.status(T) == 'tie']
                if op['pref'] == 'due' and due:
                    pop = due
                do_remove(pop[op['i'] % len(pop)], op['by'], T)
            elif name == 'reply':
                if op['target'] == 'live':
                    pop = [r for r in reqs if r.status(T) in ('live', 'tie')]
                elif op['target'] == 'stale':
                    pop = [r for r in reqs if r.status(T) == 'dead']
                else:
                    pop = []
                arrival = T + LAT if op['when'] == 'now' else T + TICK
                if pop:
                    target = pop[op['i'] % len(pop)]
                    ticket = target.ticket
                    cls = op['target']
                    if op['when'] == 'deadline' and target.end() is not None and target.end() - LAT > T + EPS:
                        arrival = target.end()      # lands exactly on the deadline of the request
                else:
                    ticket = UNKNOWN_TICKET_BASE + op['i']
                    cls = 'unknown'
                for k in range(op['n']):
                    state['reply_id'] += 1
                    rid = state['reply_id']
                    if op['when'] == 'now':
                        deliver(ticket, rid)
                    else:
                        schedule(ticket, rid, arrival, op['pre'])
                    replies.append({'id': rid, 'ticket': ticket, 'arrival': arrival, 'cls': cls, 'dup': k > 0})
            elif name == 'race':
                # a reply for a live request reaches the client on the next grid instant; once its bytes have been
                # delivered the request is removed k loop iterations later, still within the same virtual instant
                pop = [r for r in reqs if r.removed_at is None and r.status(T) == 'live'
                       and (r.deadline is None or r.deadline > T + TICK + EPS)]
                if not pop:
                    continue
                r = pop[op['i'] % len(pop)]
                state['reply_id'] += 1
                rid = state['reply_id']
                holder = []
                schedule(r.ticket, rid, T + TICK, op['pre'], holder)
                replies.append({'id': rid, 'ticket': r.ticket, 'arrival': T + TICK, 'cls': 'live', 'dup': False})
                await advance(1)
                for _ in range(20):
                    lk = holder[0].ep.link if holder else None
                    if lk is not None and lk.sent[0] > 0 and lk.delivered[0] >= lk.sent[0]:
                        break
                    await simloop.step(1)
                await simloop.step(op['k'])
                do_remove(r, op['by'], now_t())
                notes['race'] = True
            elif name == 'adv':
                await advance(op['n'])
            elif name == 'adv_to':
                pop = [r for r in reqs if r.deadline is not None and r.removed_at is None and r.status(T) == 'live']
                n = 1
                if pop:
                    r = pop[op['i'] % len(pop)]
                    k = math.floor((r.deadline - T0 + EPS) / TICK) + op['off']
                    n = max(1, min(8, k - state['tick']))
                await advance(n)
            elif name == 'step':
                await simloop.step(op['n'])
            elif name == 'set_timeout':
                state['timeout'] = op['v']
                if op['wl'] is not None and op['wl'] != state['wl_timeout']:
                    state['wl_timeout'] = op['wl']
                    wl_changes.append(T)
                if op['store'] is not None and op['store'] != state['store']:
                    state['store'] = op['store']
                    store_changes.append((T, op['store']))
                apply_settings(op['how'])
                notes['settings:' + op['how']] = True
            elif name == 'lose':
                if client.session:
                    world.server.close_session(kind=op['kind'])
                    notes['lose'] = True
            elif name == 'relogin':
                conn = client.network.server_connection
                if client.session is None and conn.state == ConnectionState.CLOSED:
                    try:
                        await client.network.connect_server()
                        await client.login()
                    except Exception as exc:
                        violations.append((f'C18/unexpected-exception:{type(exc).__name__}@relogin', repr(exc),
                                           None, T))
                    state['tick'] += 1          # connect + login take a few milliseconds: back onto the grid
                    await _until(loop, now_t())
                    notes['relogin'] = True
            elif name == 'restart':
                stops.append([T, None])
                try:
                    await client.stop()
                    if op['gap']:
                        await advance(op['gap'])
                    await client.start()
                    await client.login()
                except Exception as exc:
                    violations.append((f'C18/unexpected-exception:{type(exc).__name__}@restart', repr(exc), None, T))
                stops[-1][1] = loop.time()
                state['tick'] += 1
                await _until(loop, now_t())
                notes['restart'] = True
            elif name == 'wish':
                msg = M.WishlistInterval.Response(op['interval'])
                if op['when'] == 'now':
                    wish_arrivals.append((T + LAT, op['interval']))
                    world.server.send(msg)
                else:
                    wish_arrivals.append((T + TICK, op['interval']))
                    loop.call_at(T + TICK - LAT, world.server.send, msg)

        await advance(TAIL_TICKS)
        end = loop.time()
        stored = {id(r.obj): list(r.obj.results) for r in reqs}
        await client.stop()
        _collect()
        return end, stored

    (end, stored), loop_errors = _run_world(main)

    # ---- labels ----------------------------------------------------------
    for r in reqs:
        res.label('request:' + r.src)
        if r.timeout is None:
            res.label('request:untimed')
        if r.removed_at is not None:
            res.label('manual-remove:' + ('timed' if r.deadline is not None else 'untimed'))

    if notes['dup'] is not None:
        # two live requests share one ticket: every later observation is ambiguous -> stop evaluating this case
        res.violate(*notes['dup'])
        res.label('duplicate-live-ticket')
        res.nontrivial = True
        return res

    # ---- removal events --------------------------------------------------
    removed_events: dict[int, list[float]] = {}
    for t, kind, ev, sq in events:
        if kind != 'removed':
            continue
        r = by_obj.get(id(ev.query))
        if r is None:
            res.violate('C18/removal-event-for-unknown-request', f'at {t}: ticket {ev.query.ticket}')
            continue
        removed_events.setdefault(r.n, []).append(t)

    zombies = set()      # requests whose removal did not happen: later observations about them are consequences
    def store_at(t):
        """store_results in force at t; None on the instant of a change."""
        value = cfg['store']
        for at, new in store_changes:
            if abs(t - at) <= EPS:
                return None
            if at < t:
                value = new
        return value

    tainted = dict(uncertain)         # ticket -> instant from which observations about that ticket are consequences of a violation

    def taint(r):
        tainted[r.ticket] = min(tainted.get(r.ticket, r.deadline), r.deadline)

    for e in loop_errors:
        for r in reqs:
            if e['exc_type'] == 'KeyError' and r.removed_at is not None and r.deadline is not None \
                    and r.removed_at < r.deadline - EPS and abs(e['time'] - r.deadline) <= EPS:
                taint(r)    # the timer of a manually removed request ran: it may have deleted a newer request
    for r in reqs:
        evs = removed_events.get(r.n, [])
        D, R = r.deadline, r.removed_at
        if r.ticket in tainted and tainted[r.ticket] <= r.created + EPS:
            continue            # registered under a ticket that an earlier, already reported request still occupies
        if R is not None and (D is None or R < D - EPS):
            extra = [t for t in evs if abs(t - R) > EPS]
            if extra:
                at_deadline = D is not None and any(abs(t - D) <= EPS for t in extra)
                res.violate(STALE_TIMER_KIND if at_deadline else 'C18/removal-event-at-wrong-time',
                            f'{r.describe()}: SearchRequestRemovedEvent at {evs}')
                if at_deadline:
                    taint(r)
            elif len(evs) > 1:
                res.violate('C18/removal-event-twice', f'{r.describe()}: removal events at {evs}')
            continue
        if D is None:
            if evs:
                res.violate('C18/removal-event-for-untimed-request', f'{r.describe()}: removal events at {evs}')
            continue
        wrong = [t for t in evs if abs(t - D) > EPS]
        if wrong:
            res.violate('C18/removal-event-at-wrong-time',
                        f'{r.describe()}: removal event at {wrong} ({"early" if wrong[0] < D else "late"})')
            continue
        if len(evs) > 1:
            res.violate('C18/removal-event-twice', f'{r.describe()}: removal events at {evs}')
            continue
        if R is not None:
            continue            # manual removal on the instant of the deadline: zero or one event
        if D <= end - EPS and not evs:
            zombies.add(r.n)
            taint(r)
            res.violate(f'C18/not-removed-at-timeout:{r.src}',
                        f'{r.describe()}: no SearchRequestRemovedEvent until {end}')

    for kind, detail, ticket, at in violations:
        if ticket is None or ticket not in tainted or at < tainted[ticket] - EPS:
            res.violate(kind, detail)

    # ---- every listener of SearchRequestRemovedEvent gets every report, and gets to finish ------------------
    modes = [m for m, _ in cfg['rm_listeners']] + ['last']
    settle = end - TICK * sum(1 for m in modes if m == 'tick') - EPS    # sleeping listeners delay the ones behind
    for r in reqs:
        emitted = [t for t in removed_events.get(r.n, [])]
        if not emitted or max(emitted) > settle:
            continue
        for idx, mode in enumerate(modes):
            entered = sum(1 for i, what, rid, t in rm_log if i == idx and what == 'entered' and rid == id(r.obj))
            finished = sum(1 for i, what, rid, t in rm_log if i == idx and what == 'finished' and rid == id(r.obj))
            who = f'listener {idx + 2} of {len(modes) + 1} ({mode})'
            if entered < len(emitted):
                res.violate('C18/removal-event-not-delivered-to-every-listener',
                            f'{r.describe()}: SearchRequestRemovedEvent emitted at {emitted} but {who} received it '
                            f'{entered} time(s); listeners: {modes}')
                break
            if entered > len(emitted):
                res.violate('C18/removal-event-twice', f'{r.describe()}: {who} received it {entered} times')
                break
            if finished < entered:
                res.violate('C18/removal-listener-interrupted',
                            f'{r.describe()}: {who} was entered at the report of {emitted} but never ran to its '
                            f'end; listeners: {modes}')
                break
    for i, what, rid, t in rm_log:
        if rid not in by_obj:
            res.violate('C18/removal-event-for-unknown-request', f'listener {i} at {t}')
            break

    # ---- result events ---------------------------------------------------
    result_events: dict[int, list] = {}
    known_ids = {rp['id'] for rp in replies}
    for t, kind, ev, sq in events:
        if kind != 'result':
            continue
        rid = ev.result.avg_speed
        if rid not in known_ids or ev.result.username != 'bob':
            res.violate('C18/result-event-unsolicited', f'at {t}: {ev.result!r}')
            continue
        result_events.setdefault(rid, []).append((t, ev))
        r = by_obj.get(id(ev.query))
        if r is not None and not (r.ticket in tainted and t >= tainted[r.ticket] - EPS):
            # never legal, tie or not: a result reported after the removal of its request was reported / returned
            if r.removed_seq is not None and sq > r.removed_seq:
                res.violate('C18/result-event-after-removal:manual',
                            f'{r.describe()}: SearchResultEvent (seq {sq}, t={t}) after remove_request() returned '
                            f'(seq {r.removed_seq})')
            else:
                earlier = [q for tt, kk, ee, q in events if kk == 'removed' and ee.query is ev.query and q < sq]
                if earlier:
                    res.violate('C18/result-event-after-removal:timeout',
                                f'{r.describe()}: SearchResultEvent (seq {sq}, t={t}) after its '
                                f'SearchRequestRemovedEvent (seq {earlier[0]})')

    expected_stored: dict[int, int] = {}
    unsure_stored = set()
    for rp in replies:
        A = rp['arrival']
        if A > end - EPS:
            continue
        cands = [r for r in reqs if r.ticket == rp['ticket']]
        if rp['ticket'] in tainted and A >= tainted[rp['ticket']] - EPS:
            continue
        made = conn_at.get(rp['id'])
        if made is None or any(not (A < down - EPS or (up is not None and made > up + EPS)) for down, up in stops):
            unsure_stored.update(r.n for r in cands)
            continue    # the peer could not connect / the connection was cut by a stop() of the client
        live = [r for r in cands if r.status(A, True) == 'live']
        tie = [r for r in cands if r.status(A, True) == 'tie']
        evs = result_events.get(rp['id'], [])
        res.label('reply:' + rp['cls'] + ('+dup' if rp['dup'] else ''))
        if tie:
            end_of = tie[0].end()
            if end_of is None or abs(A - end_of) > EPS:
                notes['ties'].add('reply-at-creation')
            elif tie[0].deadline is not None and abs(tie[0].deadline - end_of) <= EPS:
                notes['ties'].add('reply-at-deadline')
            else:
                notes['ties'].add('reply-at-manual-removal')
        for r in cands:
            if r.deadline is not None and abs(A - r.deadline) <= TICK + EPS:
                notes['near'] = True
        if len(evs) > 1:
            res.violate('C18/result-event-twice', f'reply {rp} produced {len(evs)} SearchResultEvents')
            continue
        if not evs:
            if live:
                res.violate('C18/result-event-missing',
                            f'reply {rp} for live request {live[0].describe()} produced no SearchResultEvent')
            continue
        t, ev = evs[0]
        target = by_obj.get(id(ev.query))
        if not live and not tie:
            why = 'unknown-ticket'
            if cands:
                last = max(cands, key=lambda r: r.end() or 0)
                why = 'removed' if (last.removed_at is not None and last.end() == last.removed_at) else 'expired'
            res.violate(f'C18/result-event-for-dead-request:{why}',
                        f'reply {rp} produced a SearchResultEvent at {t} for '
                        f'{target.describe() if target else ev.query!r}')
            continue
        if target is None or target not in live + tie or ev.result.ticket != rp['ticket'] \
                or ev.query.ticket != rp['ticket']:
            res.violate('C18/result-event-wrong-request',
                        f'reply {rp}: event carries {target.describe() if target else ev.query!r}, result ticket '
                        f'{ev.result.ticket}; expected {[r.describe() for r in live + tie]}')
            continue
        if abs(t - A) > EPS:
            res.violate('C18/result-event-at-wrong-time', f'reply {rp}: event at {t}')
            continue
        keep = store_at(t)
        if keep is None:
            unsure_stored.add(target.n)
            continue
        is_stored = any(s is ev.result for s in stored.get(id(target.obj), []))
        if keep:
            expected_stored[target.n] = expected_stored.get(target.n, 0) + 1
        if keep != is_stored:
            res.violate('C18/stored-results-mismatch',
                        f'reply {rp}: result reported at {t} with store_results={keep} in force, '
                        f'{"not " if keep else ""}in request.results')
    for r in reqs:
        have = len(stored.get(id(r.obj), []))
        want = expected_stored.get(r.n, 0)
        if have != want and r.ticket not in tainted and r.n not in unsure_stored:
            late = [rp for rp in replies if rp['ticket'] == r.ticket and rp['arrival'] > end - EPS]
            if not late:
                res.violate('C18/stored-results-mismatch',
                            f'{r.describe()}: {have} stored results, {want} reported while store_results was on')

    # ---- SearchManager.requests at the half-grid checkpoints -------------------
    for t, table in checkpoints:
        model = {r.ticket: r for r in reqs if r.status(t) == 'live'}
        for ticket in sorted(set(table) | set(model)):
            r = model.get(ticket)
            if ticket in tainted and t >= tainted[ticket] - EPS:
                continue
            if ticket not in table:
                res.violate('C18/requests-table:missing-entry', f'at {t}: {r.describe()} is live but not registered')
            elif r is None:
                known = by_obj.get(table[ticket])
                if known is None:
                    res.violate('C18/requests-table:unknown-entry', f'at {t}: ticket {ticket}')
                elif ticket in tainted and t >= tainted[ticket] - EPS:
                    continue
                else:
                    why = 'removed' if (known.removed_at is not None and known.end() == known.removed_at) \
                        else 'expired'
                    res.violate(f'C18/requests-table:stale-entry:{why}', f'at {t}: {known.describe()}')
            elif table[ticket] != id(r.obj):
                res.violate('C18/requests-table:wrong-object', f'at {t}: {r.describe()}')
            else:
                continue
            break
        else:
            continue
        break

    # ---- loop error record -----------------------------------------------
    seen = set()
    for e in loop_errors:
        kind = f'C18/loop-error:{e["exc_type"]}'
        if e['exc_type'] == 'KeyError' and any(
                r.removed_at is not None and e['time'] >= r.removed_at - EPS and (
                    (r.deadline is not None and abs(e['time'] - r.deadline) <= EPS)
                    or e['exception'] == f'KeyError({r.ticket})')
                for r in reqs):
            kind = STALE_TIMER_KIND
        elif e['exc_type'] == 'KeyError' and any(
                e['exception'] == f'KeyError({ticket})' and e['time'] >= at - EPS for ticket, at in tainted.items()):
            continue            # the timer of a request whose ticket is shared with an already reported request
        if kind not in seen:
            seen.add(kind)
            res.violate(kind, str(e)[:400])

    for tie in sorted(notes['ties']):
        res.label('tie:' + tie)
    if notes['near']:
        res.label('near-deadline')
    if wish_arrivals:
        res.label('wishlist-rounds')
    for how in ('inplace', 'send', 'searches'):
        if notes.get('settings:' + how):
            res.label('settings-changed:' + how)
    for k in ('lose', 'relogin', 'restart'):
        if notes.get(k):
            res.label('session:' + k)
    if notes.get('hook'):
        res.label('remove-during-sent-event')
    for k in ('failed:raised', 'failed:cancelled'):
        if notes.get(k):
            res.label('search-' + k)
    if notes.get('race'):
        res.label('race:remove-k-iterations-after-reply')
    res.nontrivial = bool(notes['ties'] or notes['near'])
    return res


# ---------------------------------------------------------------------------
# family 'timer'

def _sanitise_timer(case):
    ops = []
    raw = case.get('ops')
    for o in (raw if isinstance(raw, list) else [])[:20]:
        if not isinstance(o, dict):
            continue
        name = o.get('op')
        if name in ('start', 'cancel'):
            ops.append({'op': name})
        elif name == 'resched':
            t = o.get('t')
            ops.append({'op': 'resched', 't': None if t is None else _int(t, 1, 8, 1)})
        elif name == 'adv':
            ops.append({'op': 'adv', 'n': _int(o.get('n'), 1, 10, 1)})
        elif name == 'step':
            ops.append({'op': 'step', 'n': _int(o.get('n'), 1, 6, 1)})
    return {'timeout': _int(case.get('timeout'), 1, 8, 1), 'cb_rearm': _int(case.get('cb_rearm'), 0, 2, 0), 'ops': ops}


def _run_timer(case) -> CaseResult:
    res = CaseResult()
    cfg = _sanitise_timer(case)
    if not cfg['ops']:
        return res
    from aioslsk.tasks import Timer

    fires = []
    deadlines = []   # dicts: t, state ('must'|'maybe'|'cancelled'|'superseded'), after_cancel, armed_at
    model = {'current': None, 'timeout': cfg['timeout'], 'last_cancel_running': None}
    flags = {'resched_then_cancel': False, 'resched_then_resched': False, 'tie': False, 'resched_seen': False}
    errors = []

    def kill(T, why):
        """The armed deadline (if any) is cancelled / superseded at T. Returns True if a task was (possibly) running."""
        cur = model['current']
        model['current'] = None
        if cur is None:
            return False
        d = deadlines[cur]
        if d['t'] > T + EPS:
            d['state'] = why
            return True
        if abs(d['t'] - T) <= EPS:
            d['state'] = 'maybe'
            flags['tie'] = True
            return True
        return False

    def arm(T, after_cancel):
        deadlines.append({'t': T + model['timeout'] * TTICK, 'state': 'must', 'after_cancel': after_cancel,
                          'armed_at': T})
        model['current'] = len(deadlines) - 1

    async def main(loop):
        t0 = loop.time()
        state = {'tick': 0, 'rearm': cfg['cb_rearm']}

        async def callback():
            now = loop.time()
            fires.append(now)
            if state['rearm'] > 0:
                state['rearm'] -= 1
                # the deadline that is firing is consumed; re-arming supersedes whatever else is armed
                cur = model['current']
                if cur is not None and deadlines[cur]['t'] > now + EPS:
                    deadlines[cur]['state'] = 'superseded'
                model['current'] = None
                timer.reschedule()
                flags['resched_seen'] = True
                arm(now, True)

        timer = Timer(cfg['timeout'] * TTICK, callback)

        for op in cfg['ops']:
            T = t0 + state['tick'] * TTICK
            name = op['op']
            try:
                if name == 'start':
                    cur = model['current']
                    running = cur is not None and deadlines[cur]['t'] > T - EPS
                    if running:
                        timer.reschedule()
                        if flags['resched_seen']:
                            flags['resched_then_resched'] = True
                        flags['resched_seen'] = True
                    else:
                        timer.start()
                    was_running = kill(T, 'superseded')
                    arm(T, was_running or model['last_cancel_running'] == T)
                elif name == 'cancel':
                    timer.cancel()
                    if kill(T, 'cancelled'):
                        model['last_cancel_running'] = T
                        if flags['resched_seen']:
                            flags['resched_then_cancel'] = True
                elif name == 'resched':
                    if op['t'] is not None:
                        model['timeout'] = op['t']
                    timer.reschedule(None if op['t'] is None else op['t'] * TTICK)
                    was_running = kill(T, 'superseded')
                    if was_running and flags['resched_seen']:
                        flags['resched_then_resched'] = True
                    flags['resched_seen'] = True
                    arm(T, was_running or model['last_cancel_running'] == T)
                elif name == 'adv':
                    state['tick'] += op['n']
                    await _until(loop, t0 + state['tick'] * TTICK)
                elif name == 'step':
                    await simloop.step(op['n'])
            except Exception as exc:
                errors.append((f'C18/unexpected-exception:{type(exc).__name__}@Timer.{name}', f'{op}: {exc!r}'))
        state['tick'] += 8 + 2 + 8 * cfg['cb_rearm']
        await _until(loop, t0 + state['tick'] * TTICK)
        _collect()
        return loop.time()

    end, loop_errors = simloop.run_case_on_loop(main)
    for kind, detail in errors:
        res.violate(kind, detail)

    used = [0] * len(deadlines)
    for f in fires:
        match = [i for i, d in enumerate(deadlines) if abs(d['t'] - f) <= EPS]
        pick = None
        for want in ('must', 'maybe'):
            for i in match:
                if deadlines[i]['state'] == want and not used[i]:
                    pick = i
                    break
            if pick is not None:
                break
        if pick is not None:
            used[pick] += 1
            continue
        dead = sorted((i for i in match if deadlines[i]['state'] in ('cancelled', 'superseded')),
                      key=lambda i: (not deadlines[i]['after_cancel'], i))
        if dead:
            d = deadlines[dead[0]]
            sub = 'rearmed-right-after-cancel' if d['after_cancel'] else 'plain-' + d['state']
            res.violate(f'C18/timer-fired-for-dead-deadline:{sub}',
                        f'callback ran at {f}: deadline armed at {d["armed_at"]} was {d["state"]} before it')
        elif match:
            res.violate('C18/timer-fired-twice', f'callback ran again at {f}')
        else:
            res.violate('C18/timer-fired-at-unexpected-time',
                        f'callback ran at {f}; deadlines: {[(d["t"], d["state"]) for d in deadlines]}')
        # first wrong run only: later ones are consequences (a callback that re-arms the timer moves the model; a
        # task that should not be alive clears the handle of the current one when it ends)
        break
    for i, d in enumerate(deadlines):
        if res.violations:
            break
        if d['state'] == 'must' and not used[i] and d['t'] <= end - EPS:
            res.violate('C18/timer-did-not-fire', f'deadline {d["t"]} armed at {d["armed_at"]} never fired')
    seen = set()
    for e in loop_errors:
        kind = f'C18/loop-error:{e["exc_type"]}@timer'
        if kind not in seen:
            seen.add(kind)
            res.violate(kind, str(e)[:400])

    for k, v in sorted(flags.items()):
        if v and k != 'resched_seen':
            res.label('timer:' + k)
    if cfg['cb_rearm']:
        res.label('timer:callback-rearms')
    res.label('timer:fires=%d' % min(len(fires), 4))
    res.nontrivial = bool(flags['resched_then_cancel'] or flags['resched_then_resched'] or flags['tie'])
    return res


# ---------------------------------------------------------------------------
# family 'ticket'

def _run_ticket(case) -> CaseResult:
    res = CaseResult()
    from aioslsk.utils import ticket_generator
    top = 0xFFFFFFFF
    initial = _int(case.get('initial'), 0, top, 1)
    n = _int(case.get('n'), 1, 200, 1)
    gen = ticket_generator(initial)
    values = [next(gen) for _ in range(n)]
    period = top - initial + 1            # values initial..0xFFFFFFFF (documented restart at `initial`)
    prev = initial
    for i, v in enumerate(values):
        if not isinstance(v, int) or v < 0 or v > top:
            res.violate('C18/ticket-not-uint32', f'initial={initial}: draw {i} is {v!r}')
            break
        want = prev + 1 if prev < top else initial
        if v != want:
            res.violate('C18/ticket-sequence', f'initial={initial}: draw {i} is {v}, expected {want} after {prev}')
            break
        prev = v
    window = min(n, period)
    for i in range(len(values)):
        if values[i] in values[max(0, i - window + 1):i]:
            res.violate('C18/ticket-repeats-within-period', f'initial={initial}: draw {i} ({values[i]}) repeats')
            break
    wrap = any(y < x for x, y in zip(values, values[1:]))
    crossing = wrap or any(min(values) <= b <= max(values) for b in (2 ** 8, 2 ** 15, 2 ** 16, 2 ** 24, 2 ** 31))
    res.nontrivial = bool(crossing)
    res.label('ticket:' + ('wrap' if wrap else 'crossing' if crossing else 'plain'))
    return res


# ---------------------------------------------------------------------------

def run_case(case) -> CaseResult:
    if not isinstance(case, dict):
        return CaseResult()
    tag = case.get('t')
    if tag in ('search', 'timer'):
        _begin_case()
    if tag == 'search':
        return _run_search(case)
    if tag == 'timer':
        return _run_timer(case)
    if tag == 'ticket':
        return _run_ticket(case)
    return CaseResult()


def run_shard(ctx):
    quick = ctx.tier == 'quick'
    ctx.explore(search_strategy, 300 if quick else 9000, salt=0)
    ctx.explore(timer_strategy, 250 if quick else 6000, salt=1)
    ctx.explore(ticket_strategy, 60 if quick else 600, salt=2)


MANIFEST_ENTRY = {
    'technique': 'property-based testing (Hypothesis): generated operation histories against a real logged-in client '
                 'on a virtual-time loop with in-memory TCP, ticket -> deadline reference model as oracle; a second '
                 'generated-history machine for aioslsk.tasks.Timer and a pure check of the ticket generator',
    'level_text': 'Generated-history exploration: search / room / user / command searches, wishlist rounds, manual '
                  'removals, peer replies (live, stale, unknown, duplicate) and time steps landing before, on and after '
                  'deadlines are run against the real SoulSeekClient; every SearchResultEvent / '
                  'SearchRequestRemovedEvent, SearchManager.requests at half-grid checkpoints and the loop error '
                  'record are compared with a reference model. Timer start/cancel/reschedule histories are compared '
                  'with an at-most-one-armed-deadline model. Sampled histories, no proof.',
    'level_note': 'Trusted base: virtual loop, in-memory TCP (ordered, lossless, latency 2^-10 s), simulated server, '
                  'the reference models in checks/c18.py. Same-instant races accept both outcomes; histories have '
                  '<= 20 operations on a 0.5 s (Timer: 0.25 s) grid.',
}

# One minimal deterministic history per genuine-defect kind found on the pinned tree (regressions once repaired).
KNOWN_REPLAYS = {
    # remove_request() pops the request but leaves request.timer armed: at the old deadline
    # _timeout_search_request raises KeyError in the timer task ("Task exception was never retrieved")
    STALE_TIMER_KIND: {
        't': 'search', 'timeout': 1, 'wl_timeout': -1, 'store': True, 'cmds': False, 'wishlist': [],
        'ops': [{'op': 'search', 'kind': 'net', 'via': 'api', 'q': 0},
                {'op': 'remove', 'i': 0, 'by': 'request', 'pref': 'any'}]},
    # Timer.reschedule(): the cancelled old task's done-callback (_unset_task) clears the handle of the new task,
    # so a later cancel() is a no-op and the callback still runs
    'C18/timer-fired-for-dead-deadline:rearmed-right-after-cancel': {
        't': 'timer', 'timeout': 2, 'cb_rearm': 0,
        'ops': [{'op': 'start'}, {'op': 'adv', 'n': 1}, {'op': 'resched', 't': None}, {'op': 'adv', 'n': 1},
                {'op': 'cancel'}]},
    # GlobalSearchCommand / RoomSearchCommand / UserSearchCommand draw tickets from client.ticket_generator while
    # client.searches uses its own generator (both start at 2): the second request silently replaces the first
    'C18/duplicate-live-ticket:command-vs-manager-generator': {
        't': 'search', 'timeout': 0, 'wl_timeout': -1, 'store': True, 'cmds': True, 'wishlist': [],
        'ops': [{'op': 'search', 'kind': 'net', 'via': 'api', 'q': 0},
                {'op': 'search', 'kind': 'net', 'via': 'cmd', 'q': 1}]},
    # ... and they register the request without a timer: searches.send.request_timeout is ignored
    'C18/not-removed-at-timeout:cmd': {
        't': 'search', 'timeout': 1, 'wl_timeout': -1, 'store': True, 'cmds': True, 'wishlist': [],
        'ops': [{'op': 'search', 'kind': 'net', 'via': 'cmd', 'q': 0}]},
}
