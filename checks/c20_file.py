"""C20 tier 2 — the window bound on the bytes that real send_file / receive_file loops move (DESIGN §3 C20)."""
from __future__ import annotations

import asyncio
import os
import shutil
import tempfile

from hypothesis import strategies as st

from vfw import simloop, simworld
from vfw.runner import CaseResult

_limit = st.sampled_from([1, 2, 4, 8, 16])
_limit0 = st.sampled_from([0, 0]) | _limit


CARRIERS = ['set', 'inplace+load', 'replace-limits+load', 'replace-network+load']   # see checks/c20.py


@st.composite
def file_case(draw):
    n = draw(st.integers(1, 3))
    conns = []
    for _ in range(n):
        conn = [draw(st.sampled_from([200, 1500, 5000, 12000])), draw(st.sampled_from([0, 0, 300, 1500]))]
        # the transfer task is cancelled (and its connection closed, as the transfer manager does for an abort)
        # this many ms after the transfer started
        cancel = draw(st.sampled_from([0, 0, 0, 5, 100, 700, 1203, 2500]))
        if cancel:
            conn.append(cancel)
        conns.append(conn)
    return {
        't': 'file',
        'upload': draw(st.booleans()),
        'limit': draw(_limit0),
        'conns': conns,
        'changes': [list(x) for x in draw(st.lists(
            st.tuples(st.sampled_from([50, 400, 1000, 2500, 6000]), _limit0, st.integers(0, len(CARRIERS) - 1)),
            max_size=3))],
    }


def enumerated():
    for upload in (True, False):
        for l0, l1 in ((8, 1), (1, 8), (4, 0), (0, 2), (2, 2)):
            yield {'t': 'file', 'upload': upload, 'limit': l0, 'conns': [[12000, 0]], 'changes': [[1000, l1]]}
            yield {'t': 'file', 'upload': upload, 'limit': l0, 'conns': [[12000, 0], [5000, 1500]], 'changes': [[1000, l1]]}
        # the same limit changes made through the settings (changed in place / section replaced) + load_speed_limits()
        for carrier in (1, 2, 3):
            for l0, l1 in ((0, 2), (8, 1), (1, 0)):
                yield {'t': 'file', 'upload': upload, 'limit': l0, 'conns': [[12000, 0], [5000, 1500]],
                       'changes': [[1000, l1, carrier]]}
        # one of two / three transfers that share the limiter is aborted while all of them wait for tokens; a later
        # transfer starts after the abort
        for lim_ in (1, 4):
            for victim in (0, 1):
                for cancel in (1203, 2500):
                    conns = [[12000, 0], [12000, 0], [1500, 3000]]
                    conns[victim] = conns[victim] + [cancel]
                    yield {'t': 'file', 'upload': upload, 'limit': lim_, 'conns': conns, 'changes': []}
            yield {'t': 'file', 'upload': upload, 'limit': lim_, 'conns': [[12000, 0, 700], [1500, 1500]], 'changes': []}


def run_file_case(case, res: CaseResult):
    from aioslsk.events import EventBus
    from aioslsk.network.network import Network
    from aioslsk.protocol import messages as M
    import aiofiles

    upload = bool(case.get('upload', True))

    def lim(v):
        try:
            return max(0, min(64, int(v)))
        except Exception:
            return 1
    limit0 = lim(case.get('limit', 1))
    conns = []
    for c in (case.get('conns') or [])[:3]:
        try:
            cancel = max(0, min(20000, int(c[2]))) / 1000.0 if len(c) > 2 else 0.0
            conns.append((max(1, min(20000, int(c[0]))), max(0, min(5000, int(c[1]))) / 1000.0, cancel))
        except Exception:
            continue
    if not conns:
        return
    changes = []
    for ch in (case.get('changes') or [])[:3]:
        try:
            carrier = int(ch[2]) % len(CARRIERS) if len(ch) > 2 else 0
            changes.append((max(1, min(20000, int(ch[0]))) / 1000.0, lim(ch[1]), carrier))
        except Exception:
            continue
    changes.sort()
    tmp = tempfile.mkdtemp(prefix='vfw-c20-', dir='/dev/shm' if os.path.isdir('/dev/shm') else None)
    events = []     # (time, nbytes) bytes moved by the library
    timeline = []
    carriers_used = []
    cancelled = {}  # transfer -> seconds after t0 at which its task was cancelled in mid-transfer
    conn_of = {}
    out = {}
    try:
        async def main(world):
            loop = world.loop
            from aioslsk.network.connection import CloseReason
            from aioslsk.settings import NetworkLimitSettings
            settings = simworld.mk_settings('me')
            mine = 'upload_speed_kbps' if upload else 'download_speed_kbps'
            setattr(settings.network.limits, mine, limit0)
            network = Network(settings, EventBus())
            await network.initialize()
            t0 = loop.time()
            timeline.append((t0, limit0))
            active = set()
            finish = {}
            at_change = {'n': 0}
            tasks = []

            def apply_limit(l, carrier):
                name = CARRIERS[carrier]
                if name == 'set':
                    if upload:
                        network.set_upload_speed_limit(l)
                    else:
                        network.set_download_speed_limit(l)
                    return
                if name == 'inplace+load':
                    setattr(settings.network.limits, mine, l)
                elif name == 'replace-limits+load':
                    settings.network.limits = NetworkLimitSettings(**{mine: l})
                else:
                    settings.network = settings.network.model_copy(
                        update={'limits': NetworkLimitSettings(**{mine: l})})
                network.load_speed_limits()

            def abort(i):
                if not tasks[i].done() and i in active:
                    cancelled[i] = round(loop.time() - t0, 6)
                    tasks[i].cancel()

            async def one(i, size, start, cancel_after):
                try:
                    await transfer(i, size, start, cancel_after)
                except asyncio.CancelledError:
                    # what TransferManager._upload_file/_download_file do when the transfer task is cancelled
                    active.discard(i)
                    if i in cancelled and i in conn_of:
                        await conn_of[i].disconnect(CloseReason.REQUESTED)
                    else:
                        raise

            async def transfer(i, size, start, cancel_after):
                if start:
                    await asyncio.sleep(start)
                peer = world.add_peer('p%d' % i)
                link = peer.connect('F', port=settings.network.listening.port)
                await asyncio.sleep(0.01)
                cands = [cn for cn in network.peer_connections if cn.username == 'p%d' % i]
                if not cands:
                    out['setup_failed'] = True
                    return
                conn = cands[0]
                conn_of[i] = conn
                path = os.path.join(tmp, 'f%d' % i)
                active.add(i)
                if cancel_after:
                    loop.call_later(cancel_after, abort, i)
                if upload:
                    with open(path, 'wb') as fh:
                        fh.write(bytes(size))
                    link.ep.on_data = None
                    async with aiofiles.open(path, 'rb') as handle:
                        await conn.send_file(handle, lambda data: events.append((loop.time(), len(data))))
                else:
                    link.ep.send(bytes(size))
                    async with aiofiles.open(path, 'wb') as handle:
                        await conn.receive_file(handle, size, lambda data: events.append((loop.time(), len(data))))
                active.discard(i)
                finish[i] = loop.time()

            async def changer():
                for at, l, carrier in changes:
                    delay = t0 + at - loop.time()
                    if delay > 0:
                        await asyncio.sleep(delay)
                    at_change['n'] += len(active)
                    apply_limit(l, carrier)
                    carriers_used.append(CARRIERS[carrier])
                    timeline.append((loop.time(), l))
            tasks.extend(asyncio.ensure_future(one(i, s, st_, cn_)) for i, (s, st_, cn_) in enumerate(conns))
            ch = asyncio.ensure_future(changer())
            done, pending = await asyncio.wait(tasks, timeout=200.0)
            await asyncio.wait([ch], timeout=30.0)
            out['pending'] = len(pending)
            out['pending_ids'] = sorted(i for i, t in enumerate(tasks) if t in pending)
            out['finish'] = dict(finish)
            out['active_at_change'] = at_change['n']
            out['t0'] = t0
            for t in pending:
                t.cancel()
            if pending:
                await asyncio.wait(pending, timeout=5.0)
            for t in done:
                if not t.cancelled() and t.exception() is not None:
                    out['exc'] = repr(t.exception())
            await network.disconnect()

        try:
            _, loop_errors = simworld.run_world(main)
        except simloop.HarnessLivelock as exc:
            res.violate('C20/file-transfer-stalled:spinning',
                        f'{exc}: send_file/receive_file polled for tokens for ever without being granted')
            return
    finally:
        shutil.rmtree(tmp, ignore_errors=True)
    if out.get('setup_failed') or out.get('exc'):
        res.violate('C20/file-tier-harness', str(out))   # surfaces as a violation kind that is never expected
        return
    events.sort()
    periods = []
    for i, (at, l) in enumerate(timeline):
        end = timeline[i + 1][0] if i + 1 < len(timeline) else float('inf')
        periods.append((at, end, l))

    def integral_and_max(a, b):
        total, mx = 0.0, 0
        for start, end, l in periods:
            if start > b or end < a:
                continue
            if l == 0:
                return None
            lo, hi = max(a, start), min(b, end)
            if hi > lo:
                total += l * 1024 * (hi - lo)
            mx = max(mx, l)
        return total, mx * 1024
    n = len(events)
    prefix = [0]
    for e in events:
        prefix.append(prefix[-1] + e[1])
    worst = None
    step = 1 if n <= 400 else 2
    for a in range(0, n, step):
        ta = events[a][0]
        for b in range(a, n):
            tb = events[b][0]
            if b + 1 < n and events[b + 1][0] == tb:
                continue
            im = integral_and_max(ta, tb)
            if im is None:
                break
            ex = prefix[b + 1] - prefix[a] - im[0] - im[1]
            if ex > 1e-6 and (worst is None or ex > worst[0]):
                worst = (ex, a, b)
    if worst is not None:
        ex, a, b = worst
        if len(timeline) == 1:
            kind = 'C20/window-excess:constant-limit'
        elif ex <= 128 * (len(timeline) - 1) + 1e-6:
            kind = 'C20/window-excess:limit-change:le128'
        elif out.get('active_at_change') and ex <= 128 * (len(timeline) - 1 + out['active_at_change']) + 1e-6:
            kind = 'C20/window-excess:limit-change-with-waiter'
        else:
            kind = 'C20/window-excess:limit-change:gt128'
        res.violate(kind, f'file tier ({"send_file" if upload else "receive_file"}): excess={ex:.1f} bytes in window '
                          f'[{events[a][0]:.4f},{events[b][0]:.4f}] moved={prefix[b + 1] - prefix[a]} timeline={timeline} '
                          f'changes made by {carriers_used}')
    # not throttled once the limit is 0: everything still running finishes within 1 s of the last change to unlimited
    if timeline[-1][1] == 0:
        c = timeline[-1][0]
        late = [i for i, t in out.get('finish', {}).items() if t > c + 1.0 and t > out['t0'] + conns[i][1] + 1.0]
        if late or out.get('pending'):
            res.violate('C20/throttled-although-unlimited', f'transfers {late} pending={out.get("pending")} still moving '
                        f'more than 1 s after the limit was removed at {c:.3f}; timeline={timeline} changes made by '
                        f'{carriers_used}; transfers aborted by the case (transfer: s after start) = {cancelled}')
    elif out.get('pending'):
        # transfers that the case aborts are never counted as pending: these are the others that share the limiter
        kind = 'C20/file-transfer-stalled' + (':after-cancelled-transfer' if cancelled else '')
        res.violate(kind, f'send_file/receive_file calls {out.get("pending_ids")} not finished after 200 s (at most '
                          f'60 kB at >= 1 KiB/s); timeline={timeline}; transfers aborted by the case (transfer: s '
                          f'after the start of the case) = {cancelled}')
    for e in loop_errors:
        res.violate(f'C20/loop-error:{e["exc_type"]}', str(e)[:300])
        break
    shared_abort = bool(cancelled) and len(conns) > 1 and any(l for _, l in timeline)
    res.nontrivial = bool((changes and out.get('active_at_change')) or shared_abort)
    res.label('file-tier', 'file:' + ('upload' if upload else 'download'))
    if changes and out.get('active_at_change'):
        res.label('file:limit-change-mid-transfer')
    for name in sorted(set(carriers_used)):
        res.label('file:carrier:' + name)
    if cancelled:
        res.label('file:transfer-aborted-mid-transfer')
    if shared_abort:
        res.label('file:abort-while-limiter-shared')


def shard_file(ctx):
    # enumerated() is run by checks/c20.py run_shard before the generated tiers
    ctx.explore(file_case(), 50 if ctx.tier == 'quick' else 2500, salt=5)
