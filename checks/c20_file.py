"""C20 tier 2 — the window bound on the bytes that real send_file / receive_file loops move (DESIGN §3 C20)."""
from __future__ import annotations

import asyncio
import os
import shutil
import tempfile

from hypothesis import strategies as st

from vfw import simloop, simworld
from vfw.runner import CaseResult

_limit = st.sampled_from([1, 2, 4, 8, 16])
_limit0 = st.sampled_from([0, 0]) | _limit


@st.composite
def file_case(draw):
    n = draw(st.integers(1, 3))
    return {
        't': 'file',
        'upload': draw(st.booleans()),
        'limit': draw(_limit0),
        'conns': [[draw(st.sampled_from([200, 1500, 5000, 12000])), draw(st.sampled_from([0, 0, 300, 1500]))]
                  for _ in range(n)],
        'changes': [list(x) for x in draw(st.lists(
            st.tuples(st.sampled_from([50, 400, 1000, 2500, 6000]), _limit0), max_size=3))],
    }


def enumerated():
    for upload in (True, False):
        for l0, l1 in ((8, 1), (1, 8), (4, 0), (0, 2), (2, 2)):
            yield {'t': 'file', 'upload': upload, 'limit': l0, 'conns': [[12000, 0]], 'changes': [[1000, l1]]}
            yield {'t': 'file', 'upload': upload, 'limit': l0, 'conns': [[12000, 0], [5000, 1500]], 'changes': [[1000, l1]]}


def run_file_case(case, res: CaseResult):
    from aioslsk.events import EventBus
    from aioslsk.network.network import Network
    from aioslsk.protocol import messages as M
    import aiofiles

    upload = bool(case.get('upload', True))

    def lim(v):
        try:
            return max(0, min(64, int(v)))
        except Exception:
            return 1
    limit0 = lim(case.get('limit', 1))
    conns = []
    for c in (case.get('conns') or [])[:3]:
        try:
            conns.append((max(1, min(20000, int(c[0]))), max(0, min(5000, int(c[1]))) / 1000.0))
        except Exception:
            continue
    if not conns:
        return
    changes = []
    for ch in (case.get('changes') or [])[:3]:
        try:
            changes.append((max(1, min(20000, int(ch[0]))) / 1000.0, lim(ch[1])))
        except Exception:
            continue
    changes.sort()
    tmp = tempfile.mkdtemp(prefix='vfw-c20-', dir='/dev/shm' if os.path.isdir('/dev/shm') else None)
    events = []     # (time, nbytes) bytes moved by the library
    timeline = []
    out = {}
    try:
        async def main(world):
            loop = world.loop
            settings = simworld.mk_settings('me')
            if upload:
                settings.network.limits.upload_speed_kbps = limit0
            else:
                settings.network.limits.download_speed_kbps = limit0
            network = Network(settings, EventBus())
            await network.initialize()
            t0 = loop.time()
            timeline.append((t0, limit0))
            active = set()
            finish = {}
            at_change = {'n': 0}

            async def one(i, size, start):
                if start:
                    await asyncio.sleep(start)
                peer = world.add_peer('p%d' % i)
                link = peer.connect('F', port=settings.network.listening.port)
                await asyncio.sleep(0.01)
                cands = [cn for cn in network.peer_connections if cn.username == 'p%d' % i]
                if not cands:
                    out['setup_failed'] = True
                    return
                conn = cands[0]
                path = os.path.join(tmp, 'f%d' % i)
                active.add(i)
                if upload:
                    with open(path, 'wb') as fh:
                        fh.write(bytes(size))
                    link.ep.on_data = None
                    async with aiofiles.open(path, 'rb') as handle:
                        await conn.send_file(handle, lambda data: events.append((loop.time(), len(data))))
                else:
                    link.ep.send(bytes(size))
                    async with aiofiles.open(path, 'wb') as handle:
                        await conn.receive_file(handle, size, lambda data: events.append((loop.time(), len(data))))
                active.discard(i)
                finish[i] = loop.time()

            async def changer():
                for at, l in changes:
                    delay = t0 + at - loop.time()
                    if delay > 0:
                        await asyncio.sleep(delay)
                    at_change['n'] += len(active)
                    if upload:
                        network.set_upload_speed_limit(l)
                    else:
                        network.set_download_speed_limit(l)
                    timeline.append((loop.time(), l))
            tasks = [asyncio.ensure_future(one(i, s, st_)) for i, (s, st_) in enumerate(conns)]
            ch = asyncio.ensure_future(changer())
            done, pending = await asyncio.wait(tasks, timeout=200.0)
            await asyncio.wait([ch], timeout=30.0)
            out['pending'] = len(pending)
            out['finish'] = dict(finish)
            out['active_at_change'] = at_change['n']
            out['t0'] = t0
            for t in pending:
                t.cancel()
            for t in done:
                if t.exception() is not None:
                    out['exc'] = repr(t.exception())
            await network.disconnect()

        try:
            _, loop_errors = simworld.run_world(main)
        except simloop.HarnessLivelock as exc:
            res.violate('C20/file-transfer-stalled:spinning',
                        f'{exc}: send_file/receive_file polled for tokens for ever without being granted')
            return
    finally:
        shutil.rmtree(tmp, ignore_errors=True)
    if out.get('setup_failed') or out.get('exc'):
        res.violate('C20/file-tier-harness', str(out))   # surfaces as a violation kind that is never expected
        return
    events.sort()
    periods = []
    for i, (at, l) in enumerate(timeline):
        end = timeline[i + 1][0] if i + 1 < len(timeline) else float('inf')
        periods.append((at, end, l))

    def integral_and_max(a, b):
        total, mx = 0.0, 0
        for start, end, l in periods:
            if start > b or end < a:
                continue
            if l == 0:
                return None
            lo, hi = max(a, start), min(b, end)
            if hi > lo:
                total += l * 1024 * (hi - lo)
            mx = max(mx, l)
        return total, mx * 1024
    n = len(events)
    prefix = [0]
    for e in events:
        prefix.append(prefix[-1] + e[1])
    worst = None
    step = 1 if n <= 400 else 2
    for a in range(0, n, step):
        ta = events[a][0]
        for b in range(a, n):
            tb = events[b][0]
            if b + 1 < n and events[b + 1][0] == tb:
                continue
            im = integral_and_max(ta, tb)
            if im is None:
                break
            ex = prefix[b + 1] - prefix[a] - im[0] - im[1]
            if ex > 1e-6 and (worst is None or ex > worst[0]):
                worst = (ex, a, b)
    if worst is not None:
        ex, a, b = worst
        if len(timeline) == 1:
            kind = 'C20/window-excess:constant-limit'
        elif ex <= 128 * (len(timeline) - 1) + 1e-6:
            kind = 'C20/window-excess:limit-change:le128'
        elif out.get('active_at_change') and ex <= 128 * (len(timeline) - 1 + out['active_at_change']) + 1e-6:
            kind = 'C20/window-excess:limit-change-with-waiter'
        else:
            kind = 'C20/window-excess:limit-change:gt128'
        res.violate(kind, f'file tier ({"send_file" if upload else "receive_file"}): excess={ex:.1f} bytes in window '
                          f'[{events[a][0]:.4f},{events[b][0]:.4f}] moved={prefix[b + 1] - prefix[a]} timeline={timeline}')
    # not throttled once the limit is 0: everything still running finishes within 1 s of the last change to unlimited
    if timeline[-1][1] == 0:
        c = timeline[-1][0]
        late = [i for i, t in out.get('finish', {}).items() if t > c + 1.0 and t > out['t0'] + conns[i][1] + 1.0]
        if late or out.get('pending'):
            res.violate('C20/throttled-although-unlimited', f'transfers {late} pending={out.get("pending")} still moving '
                        f'more than 1 s after the limit was removed at {c:.3f}; timeline={timeline}')
    elif out.get('pending'):
        res.violate('C20/file-transfer-stalled', f'{out["pending"]} send_file/receive_file calls not finished after 200 s')
    for e in loop_errors:
        res.violate(f'C20/loop-error:{e["exc_type"]}', str(e)[:300])
        break
    res.nontrivial = bool(changes and out.get('active_at_change'))
    res.label('file-tier', 'file:' + ('upload' if upload else 'download'))
    if res.nontrivial:
        res.label('file:limit-change-mid-transfer')


def shard_file(ctx):
    ctx.enumerate(enumerated())
    ctx.explore(file_case(), 50 if ctx.tier == 'quick' else 2500, salt=5)
