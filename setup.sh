#!/bin/sh
# Offline setup after a fresh restore: make sure hypothesis (and, best effort, atheris) are importable
# by /venv/bin/python, then run the reference self-tests.
cd "$(dirname "$0")" || exit 2
export PIP_NO_INDEX=1
/venv/bin/python -c "import hypothesis" 2>/dev/null || \
  /venv/bin/pip install --no-index --find-links /opt/veriftools/wheels hypothesis >/dev/null 2>&1 || \
  /venv/bin/pip install --no-index --find-links /opt/veriftools/wheels --target /verif/.deps hypothesis >/dev/null 2>&1
/venv/bin/python -c "import sys; sys.path.append('/verif/.deps'); import atheris" 2>/dev/null || \
  /venv/bin/pip install --no-index --find-links /opt/veriftools/wheels --target /verif/.deps atheris >/dev/null 2>&1 || \
  echo "setup: atheris not installable for /venv python (coverage-guided tier will be skipped)"
/venv/bin/python -c "import sys; sys.path.append('/verif/.deps'); import hypothesis; print('setup: hypothesis', hypothesis.__version__)" || exit 2
exec ./check selftest
