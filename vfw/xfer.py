"""Scripted transfer peers on top of simworld (used by C04, C05, C06, C08, C09).

``ScriptedUploader``: the harness plays a remote user that owns files and
uploads them to the client under test (the client downloads).
``ScriptedDownloader``: the harness plays a remote user that downloads files
the client shares.

Both follow the SoulSeek transfer negotiation on the wire, with knobs for
timing, faults and dishonesty.  They record everything they see.
"""
from __future__ import annotations

import hashlib
import struct

from . import simnet, simworld


def content(seed: int, size: int) -> bytes:
    """Deterministic pseudo-random file content."""
    out = bytearray()
    i = 0
    while len(out) < size:
        out += hashlib.sha256(struct.pack('<QI', seed & (2 ** 64 - 1), i)).digest()
        i += 1
    return bytes(out[:size])


class UploadAttempt:
    """One attempt of the scripted uploader to push a file to the client."""

    def __init__(self, path, ticket):
        self.path = path
        self.ticket = ticket
        self.reply = None            # PeerTransferReply received
        self.reply_time = None
        self.file_link = None
        self.offset = None           # offset the client sent
        self.offset_time = None
        self.sent = 0                # bytes of file data handed to the network
        self.closed_by_client = False
        self.client_closed_time = None
        self.done = False
        self.log = []


class ScriptedUploader:
    """Remote user that uploads files to the client (the client downloads)."""

    def __init__(self, world: simworld.World, name: str, files: dict[str, bytes], **peer_kw):
        self.world = world
        self.loop = world.loop
        self.name = name
        self.files = dict(files)              # remote path -> bytes
        self.announced_size: dict[str, int] = {}   # override the announced size (dishonesty)
        self.peer = world.add_peer(name, **peer_kw)
        self.peer.on_message = self._on_message
        self.queue_requests: list[tuple] = []  # (time, path)
        self.attempts: list[UploadAttempt] = []
        self.auto_start = True                 # answer PeerTransferQueue by starting an upload
        self.start_delay = 0.01
        self.file_conn_delay = 0.005           # after the reply
        self.file_conn_early = False           # open the file connection before the reply arrives
        self.plan = None                       # callable(attempt) -> dict(fault=..., ...) per attempt
        self.ticket_counter = 1000
        self.queue_failed_reason = None        # answer PeerTransferQueue with PeerTransferQueueFailed(reason)
        self.messages: list = []
        self.control_link = None
        self.on_queue = None                   # callable(path) -> bool handled
        self.ignore_offset = False
        self.wrong_ticket = False
        self.send_chunk = None                 # chunk size for file writes (None = all at once)

    # -- control channel ------------------------------------------------------
    def _on_message(self, link, msg):
        M = simworld.M()
        self.messages.append((self.loop.time(), msg))
        if isinstance(msg, M.PeerTransferQueue.Request):
            self.control_link = link
            self.queue_requests.append((self.loop.time(), msg.filename))
            if self.on_queue and self.on_queue(msg.filename):
                return
            if self.queue_failed_reason is not None or msg.filename not in self.files:
                link.send_msg(M.PeerTransferQueueFailed.Request(
                    msg.filename, self.queue_failed_reason or 'File not shared.'), delay=0.002)
                return
            if self.auto_start:
                self.loop.call_later(self.start_delay, self.start_upload, msg.filename)
        elif isinstance(msg, M.PeerTransferReply.Request):
            for att in self.attempts:
                if att.ticket == msg.ticket and att.reply is None:
                    att.reply = msg
                    att.reply_time = self.loop.time()
                    if msg.allowed and not self.file_conn_early:
                        self.loop.call_later(self.file_conn_delay, self._open_file_connection, att)
                    break
        elif isinstance(msg, M.PeerPlaceInQueueRequest.Request):
            link.send_msg(M.PeerPlaceInQueueReply.Request(msg.filename, 1), delay=0.002)

    def _control(self):
        """A usable P link towards the client (reuse the last one or connect)."""
        for link in reversed(self.peer.links):
            if link.typ == 'P' and not link.ep.dead and not link.ep.peer_closed:
                return link
        return self.peer.connect('P')

    def start_upload(self, path, size=None) -> UploadAttempt | None:
        """Send PeerTransferRequest (we are ready to upload ``path``)."""
        M = simworld.M()
        if not self.world.net.can_connect_in(self.world.client_port(False)):
            return None
        self.ticket_counter += 1
        att = UploadAttempt(path, self.ticket_counter)
        self.attempts.append(att)
        data = self.files.get(path, b'')
        announced = self.announced_size.get(path, len(data)) if size is None else size
        link = self._control()
        link.send_msg(M.PeerTransferRequest.Request(1, att.ticket, path, filesize=announced))
        if self.file_conn_early:
            self.loop.call_later(self.file_conn_delay, self._open_file_connection, att)
        return att

    def upload_failed(self, path):
        M = simworld.M()
        self._control().send_msg(M.PeerUploadFailed.Request(path))

    # -- file connection --------------------------------------------------------
    def _open_file_connection(self, att: UploadAttempt):
        if att.file_link is not None:
            return
        if not self.world.net.can_connect_in(self.world.client_port(False)):
            return
        plan = self.plan(att) if self.plan else {}
        link = self.peer.connect('F', seg=plan.get('seg'), gap=plan.get('gap', 0.0), latency=plan.get('latency'))
        att.file_link = link
        att.plan = plan
        ticket = att.ticket + (7 if self.wrong_ticket else 0)
        link.ep.send(struct.pack('<I', ticket))
        link.ep.on_data = lambda ep: self._file_data(att)
        link.ep.on_eof = lambda ep: self._client_closed(att)
        link.ep.on_reset = lambda ep: self._client_closed(att)

    def _client_closed(self, att):
        if not att.closed_by_client:
            att.closed_by_client = True
            att.client_closed_time = self.loop.time()
        att.done = True

    def _file_data(self, att: UploadAttempt):
        ep = att.file_link.ep
        if att.offset is None:
            if len(ep.inbuf) < 8:
                return
            (att.offset,) = struct.unpack('<Q', bytes(ep.inbuf[:8]))
            del ep.inbuf[:8]
            att.offset_time = self.loop.time()
            self._send_file(att)

    def _send_file(self, att: UploadAttempt):
        plan = getattr(att, 'plan', {}) or {}
        ep = att.file_link.ep
        data = self.files.get(att.path, b'')
        start = 0 if self.ignore_offset or plan.get('ignore_offset') else att.offset
        body = data[start:] if start <= len(data) else b''
        honesty = plan.get('honesty', 'exact')
        j = int(plan.get('j', 1))
        if honesty == 'short':
            body = body[:max(0, len(body) - j)]
        elif honesty == 'long':
            body = body + content(99, j)
        fault = plan.get('fault', 'none')
        k = plan.get('k')
        if fault in ('reset', 'eof', 'stall') and k is not None:
            k = max(0, min(int(k), len(body)))
            head = body[:k]
            if head:
                ep.send(head)
            att.sent = len(head)
            att.log.append((fault, k))
            if fault == 'reset':
                self.loop.call_later(plan.get('fault_delay', 0.002), ep.reset)
            elif fault == 'eof':
                self.loop.call_later(plan.get('fault_delay', 0.002), ep.close)
            # stall: say nothing more
            return
        chunk = plan.get('chunk') or self.send_chunk
        if chunk:
            for pos in range(0, len(body), chunk):
                ep.send(body[pos:pos + chunk])
        elif body:
            ep.send(body)
        att.sent = len(body)
        if honesty == 'short':
            # a sender that stops early closes the connection after a while
            self.loop.call_later(plan.get('fault_delay', 0.01), ep.close)


class DownloadAttempt:
    def __init__(self, path):
        self.path = path
        self.request = None          # PeerTransferRequest received from the client
        self.request_time = None
        self.requests = []           # all PeerTransferRequest for this path
        self.file_link = None
        self.ticket = None
        self.received = bytearray()
        self.offset_sent = None
        self.header_bytes = 0
        self.plan = None
        self.closed = False
        self.client_closed = False
        self.complete_time = None


class ScriptedDownloader:
    """Remote user that downloads files from the client (the client uploads)."""

    def __init__(self, world: simworld.World, name: str, **peer_kw):
        self.world = world
        self.loop = world.loop
        self.name = name
        self.peer = world.add_peer(name, **peer_kw)
        self.peer.on_message = self._on_message
        self.peer.on_link = self._on_link
        self.peer.on_file_data = self._on_file_data
        self.messages: list = []
        self.transfer_requests: list[tuple] = []   # (time, msg)
        self.queue_failed: list[tuple] = []
        self.upload_failed: list[tuple] = []
        self.replies: list[tuple] = []             # PeerTransferReply the client sent us (when we asked with direction 0)
        self.attempts: dict[int, DownloadAttempt] = {}   # ticket -> attempt
        self.by_path: dict[str, list[DownloadAttempt]] = {}
        self.offsets: dict[str, int] = {}          # path -> offset to announce (resume)
        self.allow = True                          # answer PeerTransferRequest with allowed
        self.refuse_reason = 'Cancelled'
        self.reply_delay = 0.002
        self.silent = False                        # never answer PeerTransferRequest
        self.expected_sizes: dict[str, int] = {}
        self.close_when_complete = True
        self.close_after = None                    # close the file connection after k bytes (downloader-side cut)
        self.attempt_plan = None                   # fn(file attempt index) -> {'close_after': k|None, 'reset': bool, 'stall': bool}
        self._file_attempts = 0
        self.offset_delay = 0.002

    def queue(self, path, link=None):
        """Ask the client to queue ``path`` for us (PeerTransferQueue)."""
        M = simworld.M()
        link = link or self._control()
        link.send_msg(M.PeerTransferQueue.Request(path))
        return link

    def request_upload(self, path, ticket=1):
        """Legacy: PeerTransferRequest with direction UPLOAD (we ask the client to upload)."""
        M = simworld.M()
        link = self._control()
        link.send_msg(M.PeerTransferRequest.Request(0, ticket, path))
        return link

    def place_in_queue(self, path):
        M = simworld.M()
        self._control().send_msg(M.PeerPlaceInQueueRequest.Request(path))

    def _control(self):
        for link in reversed(self.peer.links):
            if link.typ == 'P' and not link.ep.dead and not link.ep.peer_closed:
                return link
        return self.peer.connect('P')

    def _on_message(self, link, msg):
        M = simworld.M()
        self.messages.append((self.loop.time(), msg))
        if isinstance(msg, M.PeerTransferRequest.Request):
            self.transfer_requests.append((self.loop.time(), msg))
            att = DownloadAttempt(msg.filename)
            att.request = msg
            att.request_time = self.loop.time()
            att.ticket = msg.ticket
            self.attempts[msg.ticket] = att
            self.by_path.setdefault(msg.filename, []).append(att)
            if msg.filesize is not None:
                self.expected_sizes[msg.filename] = msg.filesize
            if self.silent:
                return
            if self.allow:
                link.send_msg(M.PeerTransferReply.Request(msg.ticket, True), delay=self.reply_delay)
            else:
                link.send_msg(M.PeerTransferReply.Request(msg.ticket, False, reason=self.refuse_reason),
                              delay=self.reply_delay)
        elif isinstance(msg, M.PeerTransferQueueFailed.Request):
            self.queue_failed.append((self.loop.time(), msg))
        elif isinstance(msg, M.PeerUploadFailed.Request):
            self.upload_failed.append((self.loop.time(), msg))
        elif isinstance(msg, M.PeerTransferReply.Request):
            self.replies.append((self.loop.time(), msg))

    def _on_link(self, link):
        pass

    def _on_file_data(self, link):
        # first 4 bytes: ticket
        att = getattr(link, 'attempt', None)
        if att is None:
            if len(link.raw) < 4:
                return
            (ticket,) = struct.unpack('<I', bytes(link.raw[:4]))
            del link.raw[:4]
            att = self.attempts.get(ticket)
            if att is None:
                att = DownloadAttempt('?')
                att.ticket = ticket
                self.attempts[ticket] = att
            att.file_link = link
            att.header_bytes = link.ep.received_total - len(link.raw)   # init message + ticket
            att.plan = self.attempt_plan(self._file_attempts) if self.attempt_plan else None
            self._file_attempts += 1
            link.attempt = att
            link.ep.on_eof = lambda ep: self._client_closed(att)
            link.ep.on_reset = lambda ep: self._client_closed(att)
            off = self.offsets.get(att.path, 0)
            att.offset_sent = off
            link.ep.send(struct.pack('<Q', off), delay=self.offset_delay)
            want = self.expected_sizes.get(att.path)
            plan = att.plan or {}
            if want is not None and off >= want and self.close_when_complete and self.close_after is None \
                    and plan.get('close_after') is None and not plan.get('stall'):
                # nothing (left) to receive: a real downloader closes right after sending the offset
                att.closed = True
                att.complete_time = self.loop.time()
                link.ep.close(delay=self.offset_delay + 0.003)
                return
        if link.raw:
            att.received += link.raw
            del link.raw[:]
        plan = att.plan or {}
        close_after = plan.get('close_after', self.close_after)
        if close_after is not None and len(att.received) >= close_after and not att.closed:
            att.closed = True
            # never before the offset went out: the cut is in the file stream
            if plan.get('reset'):
                link.ep.reset(delay=self.offset_delay + 0.001 if not att.received else 0.0)
            else:
                link.ep.close(delay=self.offset_delay + 0.001 if not att.received else 0.0)
            return
        want = self.expected_sizes.get(att.path)
        if want is not None and self.close_when_complete and not att.closed and not plan.get('stall'):
            if len(att.received) + (att.offset_sent or 0) >= want:
                att.closed = True
                att.complete_time = self.loop.time()
                link.ep.close()

    def _client_closed(self, att):
        att.client_closed = True


def share_dir_settings(settings, path, mode='everyone', users=()):
    from aioslsk.settings import SharedDirectorySettingEntry
    from aioslsk.shares.model import DirectoryShareMode
    settings.shares.directories.append(SharedDirectorySettingEntry(
        path=path, share_mode=DirectoryShareMode(mode), users=list(users)))
