"""In-memory TCP for the virtual loop (DESIGN §2.2).

Real ``asyncio.StreamReader`` / ``StreamReaderProtocol`` / ``StreamWriter`` on
top of ``MemTransport``.  A ``Link`` joins two *sides*; a side is either a
``MemTransport`` (code under test) or a scripted ``Endpoint``.  Per direction
one FIFO pump delivers data / EOF / reset events with a strictly positive
latency, an optional segmentation and an optional fault plan.
"""
from __future__ import annotations

import asyncio
import collections
import struct
import types

MIN_LATENCY = 0.0005


class MemTransport(asyncio.Transport):
    def __init__(self, loop, link: 'Link', index: int, peername, sockname):
        super().__init__()
        self._loop = loop
        self._link = link
        self._index = index
        self._protocol = None
        self._closing = False
        self._lost = False
        self._extra = {'peername': peername, 'sockname': sockname}
        self.fail_writes = None      # exception instance -> every write fails
        self.block_writes = False    # True -> drain() never completes
        self.drain_delay = 0.0       # > 0 -> every write applies back pressure: drain() completes that much later
        self._paused = False
        self.bytes_written = 0

    # asyncio.Transport API ------------------------------------------------
    def set_protocol(self, protocol):
        self._protocol = protocol

    def get_protocol(self):
        return self._protocol

    def get_extra_info(self, name, default=None):
        return self._extra.get(name, default)

    def is_closing(self):
        return self._closing

    def write(self, data):
        if self._closing or self._lost:
            return
        if self.fail_writes is not None:
            self._fatal(self.fail_writes)
            return
        data = bytes(data)
        if not data:
            return
        self.bytes_written += len(data)
        if self.block_writes and not self._paused:
            self._paused = True
            self._protocol.pause_writing()
        elif self.drain_delay > 0 and not self._paused:
            self._paused = True
            self._protocol.pause_writing()
            self._loop.call_later(self.drain_delay, self._resume)
        self._link.write_from(self._index, data)

    def _resume(self):
        if self._paused and not self.block_writes:
            self._paused = False
            if not self._lost:
                self._protocol.resume_writing()

    def writelines(self, lines):
        self.write(b''.join(lines))

    def write_eof(self):
        pass

    def can_write_eof(self):
        return False

    def _fatal(self, exc):
        if self._lost:
            return
        self._closing = True
        self._lost = True
        self._loop.call_soon(self._protocol.connection_lost, exc)
        self._link.side_closed(self._index, reset=True)

    def close(self):
        if self._closing:
            return
        self._closing = True
        self._lost = True
        self._loop.call_soon(self._protocol.connection_lost, None)
        self._link.side_closed(self._index)

    def abort(self):
        self.close()

    def get_write_buffer_size(self):
        return 0

    def get_write_buffer_limits(self):
        return (0, 65536)

    def set_write_buffer_limits(self, high=None, low=None):
        pass

    def pause_reading(self):
        pass

    def resume_reading(self):
        pass

    def is_reading(self):
        return not self._lost

    # link -> transport ----------------------------------------------------
    @property
    def dead(self):
        return self._lost

    def deliver(self, data):
        if not self._lost:
            self._protocol.data_received(data)

    def deliver_eof(self):
        if not self._lost:
            keep_open = self._protocol.eof_received()
            if not keep_open:
                self.close()

    def deliver_reset(self):
        if self._lost:
            return
        self._closing = True
        self._lost = True
        self._protocol.connection_lost(ConnectionResetError("connection reset (sim)"))
        self._link.side_closed(self._index, silent=True)


class Endpoint:
    """Scripted remote side of a simulated TCP connection."""

    def __init__(self, net: 'SimNet', name: str):
        self.net = net
        self.name = name
        self.link: 'Link' = None
        self.index = 0
        self.inbuf = bytearray()
        self.received_total = 0
        self.got_eof = False
        self.got_reset = False
        self.closed = False
        self.on_data = None
        self.on_eof = None
        self.on_reset = None
        self.eof_time = None
        self.log: list = []

    @property
    def dead(self):
        return self.closed or self.got_reset

    # link -> endpoint
    def deliver(self, data):
        if self.closed:
            return
        self.inbuf += data
        self.received_total += len(data)
        if self.on_data:
            self.on_data(self)

    def deliver_eof(self):
        if self.closed:
            return
        self.got_eof = True
        self.eof_time = self.net.loop.time()
        if self.on_eof:
            self.on_eof(self)

    def deliver_reset(self):
        self.got_reset = True
        if self.on_reset:
            self.on_reset(self)

    # script -> link
    def send(self, data: bytes, delay: float = 0.0):
        if delay and delay > 0:
            self.net.loop.call_later(delay, self._send_now, bytes(data))
        else:
            self._send_now(bytes(data))

    def _send_now(self, data):
        if self.closed or self.got_reset:
            return
        self.link.write_from(self.index, data)

    def close(self, delay: float = 0.0):
        if delay and delay > 0:
            self.net.loop.call_later(delay, self.close)
            return
        if self.closed:
            return
        self.closed = True
        self.link.side_closed(self.index)

    def reset(self, delay: float = 0.0):
        if delay and delay > 0:
            self.net.loop.call_later(delay, self.reset)
            return
        if self.closed:
            return
        self.closed = True
        self.link.side_closed(self.index, reset=True)

    @property
    def peer_closed(self):
        """True when the other side has closed / been reset (as seen here)."""
        return self.got_eof or self.got_reset

    def frames(self, obfuscated: bool = False) -> list[bytes]:
        """Pop all complete length-prefixed frames from the input buffer."""
        out = []
        hdr = 8 if obfuscated else 4
        while len(self.inbuf) >= hdr:
            if obfuscated:
                from . import wire_ref
                plain = wire_ref.obf_decode(bytes(self.inbuf[:8]))
                (n,) = struct.unpack('<I', plain[:4])
            else:
                (n,) = struct.unpack_from('<I', self.inbuf, 0)
            if len(self.inbuf) < hdr + n:
                break
            out.append(bytes(self.inbuf[:hdr + n]))
            del self.inbuf[:hdr + n]
        return out

    def take(self, n: int | None = None) -> bytes:
        if n is None:
            n = len(self.inbuf)
        data = bytes(self.inbuf[:n])
        del self.inbuf[:n]
        return data


class Link:
    """Two sides joined by two FIFO pumps."""

    def __init__(self, net: 'SimNet', name: str, latency: float = 0.001,
                 seg=None, gap: float = 0.0):
        self.net = net
        self.loop = net.loop
        self.name = name
        self.latency = max(MIN_LATENCY, latency)
        self.seg = seg          # None | int | list[int]  (chunk sizes, cyclic)
        self.gap = max(0.0, gap)
        self.sides = [None, None]
        self.sent = [0, 0]
        self.delivered = [0, 0]
        self.q = [collections.deque(), collections.deque()]
        self.pumping = [False, False]
        self.cut = [None, None]  # per sending side: (nbytes, kind) kind in reset|eof|stall
        self.stalled = [False, False]
        self.closed = [False, False]
        self.created = self.loop.time()
        self.seg_pos = [0, 0]
        self.tap = None  # callable(link, sender_index, data)

    def other(self, i):
        return self.sides[1 - i]

    # writes ------------------------------------------------------------
    def write_from(self, i, data: bytes):
        if self.closed[i]:
            return
        if self.stalled[i]:
            self.sent[i] += len(data)
            return
        cut = self.cut[i]
        if cut is not None:
            n, kind = cut
            room = n - self.sent[i]
            if len(data) >= room:
                head = data[:max(room, 0)]
                self.sent[i] += len(data)
                if head:
                    self._enqueue_data(i, head)
                self.cut[i] = None
                if kind == 'stall':
                    self.stalled[i] = True
                elif kind == 'reset':
                    self._enqueue(i, ('reset_both',))
                else:
                    self._enqueue(i, ('eof_both',))
                return
        self.sent[i] += len(data)
        self._enqueue_data(i, data)

    def _chunks(self, i, data):
        seg = self.seg
        if seg is None:
            yield data
            return
        if isinstance(seg, int):
            seg = [seg]
        pos = 0
        while pos < len(data):
            size = max(1, int(seg[self.seg_pos[i] % len(seg)]))
            self.seg_pos[i] += 1
            yield data[pos:pos + size]
            pos += size

    def _enqueue_data(self, i, data):
        if self.tap is not None:
            self.tap(self, i, data)
        for chunk in self._chunks(i, data):
            self._enqueue(i, ('data', chunk))

    def _enqueue(self, i, ev):
        ready = self.loop.time() + self.latency
        self.q[i].append((ready, ev))
        if not self.pumping[i]:
            self.pumping[i] = True
            self.loop.call_at(ready, self._pump, i)

    def _pump(self, i):
        q = self.q[i]
        if not q:
            self.pumping[i] = False
            return
        ready, ev = q[0]
        now = self.loop.time()
        if ready > now + 1e-12:
            self.loop.call_at(ready, self._pump, i)
            return
        q.popleft()
        self._deliver(i, ev)
        if q:
            nxt = max(q[0][0], now + self.gap)
            if nxt <= now + 1e-12:
                self.loop.call_soon(self._pump, i)
            else:
                self.loop.call_at(nxt, self._pump, i)
        else:
            self.pumping[i] = False

    def _deliver(self, i, ev):
        dst = self.sides[1 - i]
        kind = ev[0]
        if kind == 'data':
            if dst.dead:
                # data for a closed socket: TCP answers with RST
                src = self.sides[i]
                if not src.dead and not self.closed[i]:
                    self.loop.call_later(self.latency, src.deliver_reset)
                return
            self.delivered[i] += len(ev[1])
            dst.deliver(ev[1])
        elif kind == 'eof':
            dst.deliver_eof()
        elif kind == 'reset':
            dst.deliver_reset()
        elif kind == 'reset_both':
            self.sides[0].deliver_reset()
            self.sides[1].deliver_reset()
        elif kind == 'eof_both':
            self.sides[0].deliver_eof()
            self.sides[1].deliver_eof()

    # closes ------------------------------------------------------------
    def side_closed(self, i, reset: bool = False, silent: bool = False):
        if self.closed[i]:
            return
        self.closed[i] = True
        if silent:
            return
        self._enqueue(i, ('reset',) if reset else ('eof',))

    # fault injection from the driver -------------------------------------
    def reset_now(self):
        self.sides[0].deliver_reset()
        self.sides[1].deliver_reset()

    def all_closed(self):
        return all(s is None or s.dead for s in self.sides)


class FakeServer:
    def __init__(self, net, port):
        self.net, self.port = net, port
        self._serving = True
        self.sockets = ()

    def is_serving(self):
        return self._serving

    def close(self):
        self._serving = False
        self.net.client_listeners.pop(self.port, None)

    async def wait_closed(self):
        return

    async def start_serving(self):
        return


class Listener:
    """Behaviour of a remote (scripted) listening address."""

    def __init__(self, outcome='accept', delay=0.001, accept=None,
                 latency=0.001, seg=None, gap=0.0):
        self.outcome = outcome   # accept | refuse | hang | reset
        self.delay = delay
        self.accept = accept     # callable(endpoint)
        self.latency = latency
        self.seg = seg
        self.gap = gap


class SimNet:
    def __init__(self, loop):
        self.loop = loop
        self.remote_listeners: dict[tuple[str, int], Listener] = {}
        self.client_listeners: dict[int, tuple] = {}   # port -> (callback, host)
        self.client_ips: dict[int, str] = {}
        self.bind_fail: set[int] = set()
        self.links: list[Link] = []
        self.opened: list[tuple] = []   # (time, host, port, outcome)
        self.default_latency = 0.001
        self.pipe_params = None  # callable(host, port) -> dict(latency, seg, gap, cut)
        self._counter = 0

    # -- helpers --------------------------------------------------------
    def _client_side(self, link, index, peername, sockname, cb=None):
        reader = asyncio.StreamReader(limit=2 ** 16, loop=self.loop)
        protocol = asyncio.StreamReaderProtocol(reader, cb, loop=self.loop)
        tr = MemTransport(self.loop, link, index, peername, sockname)
        tr.set_protocol(protocol)
        link.sides[index] = tr
        return reader, protocol, tr

    # -- asyncio replacements -------------------------------------------
    async def open_connection(self, host=None, port=None, **kw):
        if isinstance(port, bool) or not isinstance(port, int) or not 0 <= port <= 65535:
            # what the real socket layer does for a port that does not fit in 16 bits (not an OSError)
            raise OverflowError('connect(): port must be 0-65535.')
        self._counter += 1
        lst = self.remote_listeners.get((host, port))
        if lst is None and port in self.client_listeners:
            return await self._open_pipe(host, port)
        if lst is None or lst.outcome == 'refuse':
            await asyncio.sleep(lst.delay if lst else MIN_LATENCY)
            self.opened.append((self.loop.time(), host, port, 'refused'))
            raise ConnectionRefusedError(f"sim: connection refused {host}:{port}")
        if lst.outcome == 'hang':
            self.opened.append((self.loop.time(), host, port, 'hang'))
            await asyncio.sleep(10 ** 7)
            raise ConnectionRefusedError("sim: hang ended")
        await asyncio.sleep(max(MIN_LATENCY, lst.delay))
        link = Link(self, f"out{self._counter}:{host}:{port}", lst.latency, lst.seg, lst.gap)
        reader, protocol, tr = self._client_side(link, 0, (host, port), ('10.0.0.1', 40000 + self._counter))
        ep = Endpoint(self, link.name)
        ep.link, ep.index = link, 1
        link.sides[1] = ep
        self.links.append(link)
        protocol.connection_made(tr)
        writer = asyncio.StreamWriter(tr, protocol, reader, self.loop)
        self.opened.append((self.loop.time(), host, port, lst.outcome))
        if lst.accept:
            lst.accept(ep)
        if lst.outcome == 'reset':
            ep.reset()
        return reader, writer

    async def _open_pipe(self, host, port):
        params = self.pipe_params(host, port) if self.pipe_params else {}
        await asyncio.sleep(max(MIN_LATENCY, params.get('delay', self.default_latency)))
        if port not in self.client_listeners:
            self.opened.append((self.loop.time(), host, port, 'refused'))
            raise ConnectionRefusedError(f"sim: connection refused {host}:{port}")
        cb, _ = self.client_listeners[port]
        link = Link(self, f"pipe{self._counter}:{host}:{port}",
                    params.get('latency', self.default_latency), params.get('seg'), params.get('gap', 0.0))
        link.cut = list(params.get('cut', [None, None]))
        link.tap = params.get('tap')
        src = ('10.0.0.%d' % (1 + self._counter % 200), 40000 + self._counter)
        ra, pa, ta = self._client_side(link, 0, (host, port), src)
        rb, pb, tb = self._client_side(link, 1, src, (host, port), cb)
        self.links.append(link)
        pa.connection_made(ta)
        pb.connection_made(tb)   # creates the accept task
        wa = asyncio.StreamWriter(ta, pa, ra, self.loop)
        self.opened.append((self.loop.time(), host, port, 'pipe'))
        return ra, wa

    async def start_server(self, cb, host=None, port=None, **kw):
        if port in self.bind_fail or port in self.client_listeners:
            raise OSError(98, f"sim: address in use {host}:{port}")
        self.client_listeners[port] = (cb, host)
        return FakeServer(self, port)

    def connect_in(self, port, peername=('9.9.9.9', 5555), latency=None, seg=None, gap=0.0) -> Endpoint:
        """A scripted peer connects to a listening port of the code under test."""
        self._counter += 1
        cb, _ = self.client_listeners[port]
        link = Link(self, f"in{self._counter}:{port}",
                    self.default_latency if latency is None else latency, seg, gap)
        ep = Endpoint(self, link.name)
        ep.link, ep.index = link, 0
        link.sides[0] = ep
        reader, protocol, tr = self._client_side(link, 1, peername, ('10.0.0.1', port), cb)
        self.links.append(link)
        protocol.connection_made(tr)
        return ep

    def can_connect_in(self, port):
        return port in self.client_listeners

    # -- installation -----------------------------------------------------
    def install(self):
        import aioslsk.network.connection as c
        fake = types.SimpleNamespace(**{k: getattr(asyncio, k) for k in dir(asyncio) if not k.startswith('__')})
        fake.open_connection = self.open_connection
        fake.start_server = self.start_server
        c.asyncio = fake
        return self

    @staticmethod
    def uninstall():
        import aioslsk.network.connection as c
        c.asyncio = asyncio

    def open_links(self):
        return [l for l in self.links if not l.all_closed()]
