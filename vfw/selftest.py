"""Reference self-tests (run by setup_cmd): the pinned layout-driven codec must
reproduce every hand-written unit-test vector and the obfuscation vectors."""
from __future__ import annotations

import json
import os
import sys
import zlib

from . import wire_ref

OBF_VECTORS = [
    ('00000000', '68656c6c', b'hell'),
    ('99abcdef', '5b32f7b308', b'hello'),
    ('ffffffff', '979a93939088908d939b', b'helloworld'),
]


def main() -> int:
    path = os.path.join(os.path.dirname(os.path.dirname(os.path.abspath(__file__))), 'pinned', 'vectors.json')
    vectors = json.load(open(path))
    bad = 0
    for v in vectors:
        key, values, raw = v['key'], v['values'], bytes.fromhex(v['hex'])
        m = wire_ref.BY_KEY[key]
        enc = wire_ref.encode(key, values)
        if m['compressed']:
            hdr = 4 + m['code_width']
            ok = enc[4:hdr] == raw[4:hdr] and zlib.decompress(enc[hdr:]) == zlib.decompress(raw[hdr:])
        else:
            ok = enc == raw
        if v['direction'] == 'serialize' and not ok:
            print('REF encode mismatch', v['test'], enc.hex(), v['hex'])
            bad += 1
        dec = wire_ref.with_defaults(key, wire_ref.decode(key, raw))
        want = wire_ref.with_defaults(key, {k: x for k, x in values.items() if x is not None})
        if dec != want:
            print('REF decode mismatch', v['test'], dec, want)
            bad += 1
    for key_hex, obf_hex, plain in OBF_VECTORS:
        k = bytes.fromhex(key_hex)
        if wire_ref.obf_encode(plain, k) != k + bytes.fromhex(obf_hex):
            print('REF obfuscation mismatch', key_hex)
            bad += 1
        if wire_ref.obf_decode(k + bytes.fromhex(obf_hex)) != plain:
            print('REF deobfuscation mismatch', key_hex)
            bad += 1
    print(f"selftest: {len(vectors)} message vectors, {len(OBF_VECTORS)} obfuscation vectors, {bad} mismatches")
    return 2 if bad else 0


if __name__ == '__main__':
    sys.exit(main())
