"""Coverage-guided fuzzing (atheris / libFuzzer) of the four message dispatchers with a metamorphic oracle:
if the bytes decode to m then decode(encode(m)) == m and encode(decode(encode(m))) == encode(m).
Run as a subprocess: python -m vfw.fuzz_c01 <group> <kind> <runs> <seed> <artifact_dir> [corpus_dir]"""
from __future__ import annotations

import os
import struct
import sys


def main(argv):
    group, kind, runs, seed, art = argv[0], argv[1], int(argv[2]), int(argv[3]), argv[4]
    corpus = argv[5] if len(argv) > 5 else None
    verif = os.path.dirname(os.path.dirname(os.path.abspath(__file__)))
    repo = os.environ.get('VFW_REPO', '/repo')
    sys.path.insert(0, verif)
    sys.path.insert(0, os.path.join(repo, 'src'))
    sys.path.append(os.path.join(verif, '.deps'))
    import logging
    logging.disable(logging.CRITICAL)
    import atheris
    with atheris.instrument_imports(include=['aioslsk.protocol']):
        from aioslsk.protocol import messages as M
    disp = {
        ('server', 'Request'): M.ServerMessage.deserialize_request,
        ('server', 'Response'): M.ServerMessage.deserialize_response,
        ('peer_init', 'Request'): M.PeerInitializationMessage.deserialize_request,
        ('peer', 'Request'): M.PeerMessage.deserialize_request,
        ('distributed', 'Request'): M.DistributedMessage.deserialize_request,
    }[(group, kind)]

    def one(data: bytes):
        if len(data) > 4096:
            return
        frame = struct.pack('<I', len(data)) + data
        try:
            m = disp(frame)
        except Exception:
            return
        try:
            e1 = m.serialize()
        except struct.error:
            # the only decodable value outside the encoder's domain: a 64-bit PeerInit ticket (documented hack)
            if group == 'peer_init':
                return
            raise
        m2 = disp(e1)
        if m2 != m or type(m2) is not type(m):
            raise AssertionError(f'decode(encode(m)) != m: {m!r} vs {m2!r}')
        e2 = m2.serialize()
        if type(m).__qualname__.split('.')[0] in ('PeerSharesReply', 'PeerSearchReply', 'PeerDirectoryContentsReply'):
            return   # compressed: bytes may differ, value equality checked above
        if e2 != e1:
            raise AssertionError(f're-encode not stable for {m!r}')
        if struct.unpack_from('<I', e1, 0)[0] != len(e1) - 4:
            raise AssertionError('length prefix')

    os.makedirs(art, exist_ok=True)
    args = [sys.argv[0], f'-runs={runs}', f'-seed={seed or 1}', f'-artifact_prefix={art}/', '-max_len=512',
            '-print_final_stats=0', '-verbosity=0']
    if corpus:
        args.append(corpus)
    atheris.Setup(args, one)
    atheris.Fuzz()


if __name__ == '__main__':
    main(sys.argv[1:])
