"""Check runner: sharding, collection, known findings, shrinking, evidence.

A check module (``checks/cNN.py``) provides::

    PROPERTY, LEVEL, RULE, ASSUMPTIONS
    run_case(case) -> CaseResult            # pure function of the JSON case
    run_shard(ctx)                           # generates cases, calls ctx.run(case)
    KNOWN_REPLAYS (optional)                 # {kind: case} for listed findings

Cases are JSON documents.  Hypothesis only produces them; every violation is
bucketed by its ``kind`` key, shrunk at the JSON level and written to
``replays/<ID>/<sha>.json``.
"""
from __future__ import annotations

import collections
import hashlib
import importlib
import json
import multiprocessing
import os
import sys
import time
import traceback
from dataclasses import dataclass, field

VERIF_DIR = os.path.dirname(os.path.dirname(os.path.abspath(__file__)))
KNOWN_FILE = os.path.join(VERIF_DIR, 'KNOWN_FINDINGS.txt')
OUT_DIR = os.environ.get('VFW_OUT', VERIF_DIR)   # evidence/ and new replays/ (sensitivity runs redirect it)
MAX_SAMPLES = 6


def canon(obj) -> str:
    return json.dumps(obj, sort_keys=True, separators=(',', ':'), ensure_ascii=True, default=repr)


def digest(obj) -> str:
    return hashlib.sha256(canon(obj).encode()).hexdigest()[:16]


@dataclass
class CaseResult:
    violations: list = field(default_factory=list)   # [(kind, detail)]
    labels: list = field(default_factory=list)       # [str]
    nontrivial: bool = False
    key: object = None                                # distinctness key (default: the case)
    info: object = None                               # optional extra for samples

    def violate(self, kind: str, detail: str = ''):
        self.violations.append((kind, str(detail)[:2000]))

    def label(self, *labels):
        self.labels.extend(labels)


class HarnessError(Exception):
    pass


class ShardCtx:
    def __init__(self, module, tier, seed, shard, nshards, known_kinds, budget_s):
        self.module = module
        self.tier = tier
        self.base_seed = seed
        self.shard = shard
        self.nshards = nshards
        self.seed = seed * 1009 + shard
        self.known_kinds = known_kinds
        self.t0 = time.time()
        self.deadline = self.t0 + budget_s
        self.evaluations = 0
        self.nontrivial: set[str] = set()
        self.labels = collections.Counter()
        self.samples: list = []
        self.nontrivial_samples: list = []
        self.violations: dict[str, dict] = {}
        self.violation_counts = collections.Counter()
        self.excluded_known = 0
        self.skipped_budget = 0
        self.harness_errors: list[str] = []
        self.inconclusive = 0
        self.extra: dict = {}

    # -- budget ---------------------------------------------------------
    def out_of_time(self) -> bool:
        return time.time() > self.deadline

    # -- running a single case --------------------------------------------
    def run(self, case) -> CaseResult | None:
        if self.out_of_time():
            self.skipped_budget += 1
            return None
        try:
            res = self.module.run_case(case)
        except Exception:
            tb = traceback.format_exc()
            if len(self.harness_errors) < 3:
                self.harness_errors.append(tb + "\ncase=" + canon(case)[:4000])
                try:
                    hdir = os.path.join(OUT_DIR, 'harness-errors')
                    os.makedirs(hdir, exist_ok=True)
                    with open(os.path.join(hdir, f'{self.module.PROPERTY}-{digest(case)}.json'), 'w') as fh:
                        json.dump({'case': case, 'traceback': tb}, fh, indent=1, default=repr)
                except Exception:
                    pass
            # an exception escaping run_case makes this case inconclusive; a handful of them is tolerated
            # (reported in the evidence), more than that is a harness error (exit 2)
            self.inconclusive += 1
            if self.inconclusive > 50:
                raise HarnessError(tb)
            return None
        self.record(case, res)
        return res

    def record(self, case, res: CaseResult):
        self.evaluations += 1
        for lab in res.labels:
            self.labels[lab] += 1
        if len(self.samples) < 2:
            self.samples.append(case)
        if res.nontrivial:
            key = res.key if res.key is not None else case
            self.nontrivial.add(digest(key))
            if len(self.nontrivial_samples) < 2:
                self.nontrivial_samples.append(case if res.info is None else {'case': case, 'info': res.info})
        if res.violations:
            known_only = True
            for kind, detail in res.violations:
                self.violation_counts[kind] += 1
                if not match_known(kind, self.known_kinds):
                    known_only = False
                cur = self.violations.get(kind)
                size = len(canon(case))
                if cur is None or size < cur['size']:
                    self.violations[kind] = {'kind': kind, 'detail': detail, 'case': case, 'size': size}
            if known_only:
                self.excluded_known += 1

    # -- hypothesis driven exploration -------------------------------------
    def explore(self, strategy, max_examples: int, salt: int = 0):
        """Run ``max_examples`` generated cases (collect, never raise)."""
        import hypothesis
        from hypothesis import HealthCheck, Phase, given, settings

        ctx = self

        @hypothesis.seed(self.seed * 31 + salt)
        @settings(max_examples=max_examples, database=None, deadline=None, derandomize=False,
                  report_multiple_bugs=False, suppress_health_check=list(HealthCheck),
                  phases=[Phase.generate])
        @given(strategy)
        def test(case):
            ctx.run(case)

        test()

    def enumerate(self, cases):
        """Run every case of an iterable that belongs to this shard."""
        for i, case in enumerate(cases):
            if i % self.nshards != self.shard:
                continue
            self.run(case)

    def result(self) -> dict:
        return {
            'shard': self.shard,
            'evaluations': self.evaluations,
            'nontrivial': self.nontrivial,
            'labels': self.labels,
            'samples': self.samples,
            'nontrivial_samples': self.nontrivial_samples,
            'violations': self.violations,
            'violation_counts': self.violation_counts,
            'excluded_known': self.excluded_known,
            'skipped_budget': self.skipped_budget,
            'harness_errors': self.harness_errors,
            'inconclusive': self.inconclusive,
            'extra': self.extra,
            'wall': time.time() - self.t0,
        }


# ---------------------------------------------------------------------------
# known findings

def load_known(property_id: str) -> list[dict]:
    out = []
    if not os.path.exists(KNOWN_FILE):
        return out
    for line in open(KNOWN_FILE, encoding='utf-8'):
        line = line.strip()
        if not line.startswith('known:'):
            continue
        parts = line[len('known:'):].split()
        kv = dict(p.split('=', 1) for p in parts[:2] if '=' in p)
        if kv.get('property') != property_id:
            continue
        out.append({'kind': kv.get('kind', ''), 'text': ' '.join(parts[2:])})
    return out


def match_known(kind: str, known_kinds) -> bool:
    """Exact match, or shell-style match when the listed kind contains '*' (only '*' is special)."""
    for k in known_kinds:
        if '*' in k:
            import re
            if re.fullmatch('.*'.join(re.escape(part) for part in k.split('*')), kind):
                return True
        elif kind == k:
            return True
    return False


# ---------------------------------------------------------------------------
# JSON-level shrinking (delta debugging on the case document)

def _candidates(obj):
    """Yield simpler variants of a JSON value (most aggressive first)."""
    if isinstance(obj, list):
        n = len(obj)
        if n:
            yield []
            size = n // 2
            while size >= 1:
                for start in range(0, n, size):
                    yield obj[:start] + obj[start + size:]
                size //= 2
            for i, item in enumerate(obj):
                for cand in _candidates(item):
                    yield obj[:i] + [cand] + obj[i + 1:]
    elif isinstance(obj, dict):
        for k in obj:
            for cand in _candidates(obj[k]):
                new = dict(obj)
                new[k] = cand
                yield new
    elif isinstance(obj, bool):
        if obj:
            yield False
    elif isinstance(obj, int):
        if obj != 0:
            yield 0
            if abs(obj) > 1:
                yield obj // 2
            yield obj - 1 if obj > 0 else obj + 1
    elif isinstance(obj, float):
        if obj != 0.0:
            yield 0.0
            yield float(int(obj))
    elif isinstance(obj, str):
        if obj:
            yield ''
            if len(obj) > 1:
                yield obj[:len(obj) // 2]
                yield obj[len(obj) // 2:]
                yield obj[:-1]
                yield obj[1:]


def shrink_case(module, case, kind: str, budget_s: float = 60.0, max_tries: int = 4000):
    """Greedy shrink: keep any simpler case that still produces ``kind``.
    ``run_case`` clamps every value into the generator's sound domain, so
    shrunk documents stay inside the quantifier."""
    t_end = time.time() + budget_s
    tries = 0

    def fails(c):
        try:
            res = module.run_case(c)
        except Exception:
            return False
        return any(k == kind for k, _ in res.violations)

    best = case
    improved = True
    while improved and time.time() < t_end and tries < max_tries:
        improved = False
        best_size = len(canon(best))
        for cand in _candidates(best):
            if time.time() > t_end or tries >= max_tries:
                break
            if len(canon(cand)) >= best_size:
                continue
            tries += 1
            if fails(cand):
                best = cand
                improved = True
                break
    return best, tries


# ---------------------------------------------------------------------------
# orchestration

def _shard_entry(args):
    modname, tier, seed, shard, nshards, known_kinds, budget_s = args
    try:
        module = importlib.import_module(modname)
        ctx = ShardCtx(module, tier, seed, shard, nshards, known_kinds, budget_s)
        try:
            module.run_shard(ctx)
        except HarnessError:
            pass
        return ctx.result()
    except BaseException:
        return {'shard': shard, 'fatal': traceback.format_exc()}


def _budget(module, tier):
    b = getattr(module, 'BUDGET_S', {'quick': 150, 'thorough': 1500})
    return b[tier]


def run_check(property_id: str, tier: str, seed: int, nshards: int | None = None) -> int:
    t0 = time.time()
    modname = f'checks.{property_id.lower()}'
    module = importlib.import_module(modname)
    known = load_known(property_id)
    known_kinds = [k['kind'] for k in known]
    if nshards is None:
        nshards = int(os.environ.get('VFW_SHARDS', min(16, os.cpu_count() or 1)))
    nshards = max(1, min(nshards, getattr(module, 'MAX_SHARDS', 16)))
    budget_s = _budget(module, tier)

    # replay tier: listed known findings + committed regression replays
    known_hit = {}
    replay_violations = []
    replays_run = 0
    for kind, case in getattr(module, 'KNOWN_REPLAYS', {}).items():
        replays_run += 1
        res = module.run_case(case)
        for k, detail in res.violations:
            if match_known(k, known_kinds):
                known_hit.setdefault(k, detail)
            else:
                replay_violations.append({'kind': k, 'detail': detail, 'case': case, 'size': len(canon(case))})
    rdir = os.path.join(VERIF_DIR, 'replays', property_id)
    wdir = os.path.join(OUT_DIR, 'replays', property_id)
    if os.path.isdir(rdir):
        for name in sorted(os.listdir(rdir)):
            if not name.endswith('.json') or not name.startswith('reg-'):
                continue
            doc = json.load(open(os.path.join(rdir, name)))
            replays_run += 1
            res = module.run_case(doc['case'])
            for k, detail in res.violations:
                if match_known(k, known_kinds):
                    known_hit.setdefault(k, detail)
                else:
                    replay_violations.append({'kind': k, 'detail': detail, 'case': doc['case'],
                                              'size': len(canon(doc['case']))})

    args = [(modname, tier, seed, s, nshards, known_kinds, budget_s) for s in range(nshards)]
    if nshards == 1:
        results = [_shard_entry(args[0])]
    else:
        mpctx = multiprocessing.get_context('fork')
        with mpctx.Pool(nshards) as pool:
            results = pool.map(_shard_entry, args, chunksize=1)

    fatal = [r for r in results if 'fatal' in r]
    harness_errors = [e for r in results if 'fatal' not in r for e in r['harness_errors']]
    inconclusive = sum(r.get('inconclusive', 0) for r in results if 'fatal' not in r)
    total_cases = sum(r.get('evaluations', 0) for r in results if 'fatal' not in r) + inconclusive
    tolerated = inconclusive <= max(3, total_cases // 500)
    if harness_errors and tolerated and not fatal:
        for e in harness_errors[:2]:
            print(f"INCONCLUSIVE case (exception in the harness, tolerated: {inconclusive} of {total_cases})\n"
                  f"{e[-1200:]}", file=sys.stderr)
    if fatal or (harness_errors and not tolerated):
        for r in fatal:
            print(f"HARNESS-ERROR shard={r['shard']}\n{r['fatal']}", file=sys.stderr)
        for e in harness_errors[:3]:
            print(f"HARNESS-ERROR in run_case\n{e}", file=sys.stderr)
        return 2

    evaluations = sum(r['evaluations'] for r in results)
    nontrivial = set()
    labels = collections.Counter()
    vcounts = collections.Counter()
    samples, nsamples = [], []
    violations: dict[str, dict] = {}
    excluded = skipped = 0
    extra: dict = {}
    for r in results:
        nontrivial |= r['nontrivial']
        labels.update(r['labels'])
        vcounts.update(r['violation_counts'])
        excluded += r['excluded_known']
        skipped += r['skipped_budget']
        samples.extend(r['samples'])
        nsamples.extend(r['nontrivial_samples'])
        for kind, v in r['violations'].items():
            if kind not in violations or v['size'] < violations[kind]['size']:
                violations[kind] = v
        for k, v in r['extra'].items():
            if isinstance(v, (int, float)):
                extra[k] = extra.get(k, 0) + v
            else:
                extra.setdefault(k, v)
    for v in replay_violations:
        if v['kind'] not in violations or v['size'] < violations[v['kind']]['size']:
            violations[v['kind']] = v
        vcounts[v['kind']] += 1

    unlisted = {k: v for k, v in violations.items() if not match_known(k, known_kinds)}
    for k, v in violations.items():
        if match_known(k, known_kinds):
            known_hit.setdefault(k, v['detail'])

    # shrink + write replays for unlisted violations (bucketed by kind)
    replay_paths = []
    shrink_budget = 45.0 if tier == 'quick' else 240.0
    for kind in sorted(unlisted)[:5]:
        v = unlisted[kind]
        small, tries = shrink_case(module, v['case'], kind, budget_s=shrink_budget / max(1, min(5, len(unlisted))))
        detail = v['detail']
        try:
            res = module.run_case(small)
            for k, d in res.violations:
                if k == kind:
                    detail = d
        except Exception:
            small = v['case']
        doc = {'property': property_id, 'kind': kind, 'detail': detail, 'case': small,
               'shrink_tries': tries, 'seed': seed, 'tier': tier}
        os.makedirs(wdir, exist_ok=True)
        path = os.path.join(wdir, f"{digest([kind, small])}.json")
        with open(path, 'w') as fh:
            json.dump(doc, fh, indent=1, sort_keys=True, default=repr)
        replay_paths.append((kind, path, detail))

    wall = time.time() - t0
    coverage = {
        'evaluations': evaluations + replays_run,
        'distinct_nontrivial': len(nontrivial),
        'rule': module.RULE,
        'samples': (nsamples[:MAX_SAMPLES // 2] + samples[:MAX_SAMPLES // 2]) or samples[:MAX_SAMPLES],
        'labels': dict(sorted(labels.items(), key=lambda kv: (-kv[1], kv[0]))[:80]),
        'excluded_known': excluded,
        'replays_run': replays_run,
        'skipped_after_time_budget': skipped,
        'shards': nshards,
        'violation_kinds': dict(vcounts),
        'inconclusive_cases': inconclusive,
    }
    if getattr(module, 'EXHAUSTIVE', False):
        coverage['exhaustive'] = True
    coverage.update(extra)
    evidence = {
        'property_id': property_id,
        'tier': tier,
        'seed': seed,
        'level': module.LEVEL,
        'coverage': coverage,
        'assumptions': list(module.ASSUMPTIONS),
        'wall_s': round(wall, 2),
        'violations': len(unlisted),
    }
    edir = os.path.join(OUT_DIR, 'evidence')
    os.makedirs(edir, exist_ok=True)
    with open(os.path.join(edir, f'{property_id}.json'), 'w') as fh:
        json.dump(evidence, fh, indent=1, sort_keys=True, default=repr)

    for k in known:
        hits = [kk for kk in known_hit if match_known(kk, [k['kind']])]
        if hits:
            print(f"KNOWN-FINDING: property={property_id} kind={k['kind']} {k['text']}")
    print(f"{property_id} {tier}: evaluations={coverage['evaluations']} distinct_nontrivial={len(nontrivial)} "
          f"excluded_known={excluded} skipped_budget={skipped} wall={wall:.1f}s")
    if replay_paths:
        for kind, path, detail in replay_paths:
            print(f"  kind={kind} detail={detail[:300]}")
            print(f"VIOLATION property={property_id} replay={os.path.relpath(path, VERIF_DIR) if OUT_DIR == VERIF_DIR else path}")
        return 1
    return 0


def run_replay(property_id: str, path: str) -> int:
    module = importlib.import_module(f'checks.{property_id.lower()}')
    known_kinds = [k['kind'] for k in load_known(property_id)]
    doc = json.load(open(path))
    case = doc['case'] if isinstance(doc, dict) and 'case' in doc else doc
    res = module.run_case(case)
    bad = False
    for kind, detail in res.violations:
        if match_known(kind, known_kinds):
            print(f"KNOWN-FINDING: property={property_id} kind={kind} {detail[:300]}")
        else:
            bad = True
            print(f"  kind={kind} detail={detail[:1000]}")
    if bad:
        print(f"VIOLATION property={property_id} replay={path}")
        return 1
    print(f"{property_id} replay: no violation")
    return 0
