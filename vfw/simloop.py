"""Deterministic virtual-time asyncio event loop (DESIGN §2.1).

* ``time()`` is a virtual clock; the fake selector never blocks: it jumps the
  clock to the next timer deadline.
* ``run_in_executor`` runs the job inline (deterministic order of file-system
  effects) but resolves the future later (``call_soon`` or after a virtual
  delay chosen by ``executor_delay``) so the yield points of the real thread
  pool are preserved.
* every "exception was never retrieved / task died" context is recorded in
  ``loop.errors``.
"""
from __future__ import annotations

import asyncio
import heapq
import types

START_TIME = 1000.0
SPIN_LIMIT = 3000


class HarnessDeadlock(Exception):
    """The loop would block forever: nothing ready, nothing scheduled."""


class HarnessLivelock(Exception):
    """Too many loop iterations in one case (budget exhausted)."""


class _Selector:
    def __init__(self, loop: 'VirtualLoop'):
        self.loop = loop

    def select(self, timeout):
        loop = self.loop
        loop.iterations += 1
        if loop.iterations > loop.max_iterations:
            raise HarnessLivelock(f"more than {loop.max_iterations} loop iterations")
        if timeout is None:
            raise HarnessDeadlock("loop would block forever")
        if timeout == 0:
            # zero-delay spinner (e.g. a background job whose interval became 0): in reality every loop iteration
            # takes time, so timers still expire.  After SPIN_LIMIT iterations at one virtual instant jump to the
            # next timer deadline instead of starving all timers for ever.
            if loop._vtime == loop._spin_at:
                loop._spin_count += 1
                # once a spinner has been recognised, later jumps need only a few iterations (until the ready
                # queue drains again, see below)
                if loop._spin_count > (SPIN_LIMIT if not loop._spin_mode else 20) and loop._scheduled:
                    when = loop._scheduled[0]._when
                    if when > loop._vtime:
                        loop._vtime = when
                        loop.spin_jumps += 1
                        loop._spin_mode = True
            else:
                loop._spin_at = loop._vtime
                loop._spin_count = 0
        else:
            loop._spin_mode = False
        if timeout > 0:
            sched = loop._scheduled
            if sched:
                when = sched[0]._when
                if when - loop._vtime <= timeout + 1e-9:
                    loop._vtime = max(loop._vtime, when)
                else:
                    loop._vtime += timeout
            else:
                loop._vtime += timeout
        return []

    def close(self):
        pass


class VirtualLoop(asyncio.BaseEventLoop):
    def __init__(self, max_iterations: int = 2_000_000):
        super().__init__()
        self._vtime = START_TIME
        self._selector = _Selector(self)
        self._clock_resolution = 1e-9
        self.iterations = 0
        self.max_iterations = max_iterations
        self.errors: list[dict] = []
        self._spin_at = None
        self._spin_count = 0
        self._spin_mode = False
        self.spin_jumps = 0
        # callable () -> float delay (virtual seconds; 0 -> call_soon)
        self.executor_delay = None
        self.executor_calls = 0

    # -- clock ---------------------------------------------------------
    def time(self):
        return self._vtime

    # -- BaseEventLoop plumbing -----------------------------------------
    def _process_events(self, event_list):
        pass

    def _write_to_self(self):
        pass

    def call_exception_handler(self, context):
        # record first (the client installs its own handler in start()), then delegate
        self._record_error(self, context)
        if self._exception_handler is not None:
            try:
                self._exception_handler(self, context)
            except Exception:
                pass

    def _record_error(self, loop, context):
        exc = context.get('exception')
        self.errors.append({
            'time': round(self._vtime, 6),
            'message': context.get('message', ''),
            'exception': repr(exc) if exc is not None else None,
            'exc_type': type(exc).__name__ if exc is not None else None,
            'task': getattr(context.get('task') or context.get('future'), 'get_name', lambda: None)(),
        })

    # -- executor -------------------------------------------------------
    def run_in_executor(self, executor, func, *args):
        self.executor_calls += 1
        fut = self.create_future()
        try:
            res = func(*args)
        except BaseException as exc:  # noqa: BLE001 - mirror a thread pool
            err = exc

            def resolve():
                if not fut.cancelled():
                    fut.set_exception(err)
        else:
            def resolve():
                if not fut.cancelled():
                    fut.set_result(res)
        delay = self.executor_delay() if self.executor_delay is not None else 0
        if delay and delay > 0:
            self.call_later(delay, resolve)
        else:
            self.call_soon(resolve)
        return fut

    def set_default_executor(self, executor):
        pass

    async def shutdown_default_executor(self, timeout=None):
        return


def virtual_time_namespace(loop: VirtualLoop):
    """A stand-in for the ``time`` module bound to the loop's clock."""
    import time as _time
    ns = types.SimpleNamespace(**{k: getattr(_time, k) for k in dir(_time) if not k.startswith('__')})
    ns.time = lambda: 1_700_000_000.0 + loop.time()
    ns.monotonic = lambda: loop.time()
    ns.perf_counter = lambda: loop.time()
    return ns


_TIME_MODULES = (
    'aioslsk.network.rate_limiter',
    'aioslsk.transfer.model',
    'aioslsk.transfer.manager',
    'aioslsk.room.manager',
    'aioslsk.shares.manager',
    'aioslsk.commands',
)


def install_virtual_time(loop: VirtualLoop):
    import importlib
    ns = virtual_time_namespace(loop)
    for name in _TIME_MODULES:
        mod = importlib.import_module(name)
        if hasattr(mod, 'time'):
            mod.time = ns
    return ns


async def step(n: int = 1):
    """Let ``n`` loop iterations pass (zero virtual time)."""
    for _ in range(n):
        await asyncio.sleep(0)


async def advance(dt: float):
    """Let ``dt`` seconds of virtual time pass."""
    await asyncio.sleep(dt)


def new_loop(max_iterations: int = 2_000_000) -> VirtualLoop:
    loop = VirtualLoop(max_iterations=max_iterations)
    asyncio.set_event_loop(loop)
    install_virtual_time(loop)
    return loop


def close_loop(loop: VirtualLoop, settle: float = 0.0):
    """Cancel whatever is left and close the loop (per-case teardown)."""
    try:
        pending = [t for t in asyncio.all_tasks(loop) if not t.done()]
        for t in pending:
            t.cancel()
        if pending:
            # a bounded number of rounds: tasks that swallow cancellation are dropped
            for _ in range(5):
                try:
                    loop.run_until_complete(asyncio.wait(pending, timeout=1.0))
                except (HarnessDeadlock, HarnessLivelock):
                    break
                pending = [t for t in pending if not t.done()]
                if not pending:
                    break
                for t in pending:
                    t.cancel()
    finally:
        try:
            loop._ready.clear()
            loop._scheduled.clear()
        except Exception:
            pass
        asyncio.set_event_loop(None)
        loop.close()


def run_case_on_loop(main_factory, *, max_iterations: int = 2_000_000):
    """Create a fresh loop, run ``main_factory(loop)`` (a coroutine) to
    completion, tear down. Returns (result, loop_errors)."""
    loop = new_loop(max_iterations=max_iterations)
    try:
        result = loop.run_until_complete(main_factory(loop))
        return result, list(loop.errors)
    finally:
        close_loop(loop)
