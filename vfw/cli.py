"""Entry point: python -m vfw.cli check <ID> <quick|thorough> | replay <ID> <file> | selftest"""
from __future__ import annotations

import logging
import os
import sys
import traceback


def _bootstrap():
    verif = os.path.dirname(os.path.dirname(os.path.abspath(__file__)))
    repo = os.environ.get('VFW_REPO', '/repo')
    src = os.path.join(repo, 'src')
    for p in (verif, src):
        if p in sys.path:
            sys.path.remove(p)
    sys.path.insert(0, verif)
    sys.path.insert(0, src)
    deps = os.path.join(verif, '.deps')
    if os.path.isdir(deps) and deps not in sys.path:
        sys.path.append(deps)
    logging.disable(logging.CRITICAL)
    os.environ.setdefault('AIOSLSK_VERIF', '1')


def main(argv):
    _bootstrap()
    from vfw import runner
    try:
        if argv[0] == 'check':
            pid, tier = argv[1].upper(), argv[2]
            if tier not in ('quick', 'thorough'):
                raise SystemExit(f"unknown tier {tier}")
            seed = int(os.environ.get('VERIF_SEED', '1') or '1')
            import aioslsk
            expected = os.path.realpath(os.path.join(os.environ.get('VFW_REPO', '/repo'), 'src', 'aioslsk'))
            actual = os.path.realpath(os.path.dirname(aioslsk.__file__))
            if expected != actual:
                print(f"HARNESS-ERROR: aioslsk imported from {actual}, expected {expected}", file=sys.stderr)
                return 2
            return runner.run_check(pid, tier, seed)
        if argv[0] == 'replay':
            return runner.run_replay(argv[1].upper(), argv[2])
        if argv[0] == 'selftest':
            from vfw import selftest
            return selftest.main()
        raise SystemExit(f"unknown command {argv[0]}")
    except SystemExit:
        raise
    except BaseException:
        traceback.print_exc()
        print("HARNESS-ERROR", file=sys.stderr)
        return 2


if __name__ == '__main__':
    sys.exit(main(sys.argv[1:]))
