"""Bridge between JSON message values (wire_ref) and aioslsk message objects."""
from __future__ import annotations

import dataclasses

from . import wire_ref

_GROUP_BASE = {'server': 'ServerMessage', 'peer_init': 'PeerInitializationMessage',
               'peer': 'PeerMessage', 'distributed': 'DistributedMessage'}


def msg_class(key: str):
    from aioslsk.protocol import messages as M
    group, name, kind = key.split(':')
    return getattr(getattr(M, name), kind)


def record_class(name: str):
    from aioslsk.protocol import primitives as P
    return getattr(P, name)


def _to_py(typ, value, subtype=None):
    if value is None:
        return None
    if typ == 'bytearr':
        return bytes.fromhex(value['$b'])
    if typ == 'array':
        return [_to_py(subtype, v) for v in value]
    if typ.startswith('record:'):
        name = typ[7:]
        fields = wire_ref.RECORDS[name]
        return record_class(name)(**{f['name']: _to_py(f['type'], value[f['name']], f.get('subtype')) for f in fields})
    return value


def to_obj(key: str, values: dict):
    cls = msg_class(key)
    kwargs = {}
    for f in wire_ref.BY_KEY[key]['fields']:
        if f['name'] in values:
            kwargs[f['name']] = _to_py(f['type'], values[f['name']], f.get('subtype'))
    return cls(**kwargs)


def _from_py(typ, value, subtype=None):
    if value is None:
        return None
    if typ == 'bytearr':
        return {'$b': bytes(value).hex()}
    if typ == 'array':
        return [_from_py(subtype, v) for v in value]
    if typ.startswith('record:'):
        fields = wire_ref.RECORDS[typ[7:]]
        return {f['name']: _from_py(f['type'], getattr(value, f['name']), f.get('subtype')) for f in fields}
    if typ == 'boolean':
        return bool(value) if isinstance(value, (bool, int)) else value
    if typ in wire_ref.INT_RANGE:
        return int(value) if isinstance(value, int) else value
    return value


def key_of(obj) -> str:
    from aioslsk.protocol import messages as M
    cls = type(obj)
    outer = cls.__qualname__.split('.')[0]
    kind = cls.__name__
    outer_cls = getattr(M, outer)
    for group, base in _GROUP_BASE.items():
        if issubclass(outer_cls, getattr(M, base)):
            return f"{group}:{outer}:{kind}"
    raise KeyError(cls)


def from_obj(obj) -> tuple[str, dict]:
    key = key_of(obj)
    values = {}
    for f in wire_ref.BY_KEY[key]['fields']:
        values[f['name']] = _from_py(f['type'], getattr(obj, f['name']), f.get('subtype'))
    return key, values


def live_field_names(key: str) -> list[str]:
    return [f.name for f in dataclasses.fields(msg_class(key))]
