"""Coverage-guided fuzzing (atheris / libFuzzer) of DataConnection.decode_message_data for C02:
whatever the bytes, the decoder returns a message or raises MessageDeserializationError -- nothing else escapes.
Run as a subprocess: python -m vfw.fuzz_c02 <kind> <runs> <seed> <artifact_dir> [corpus_dir]
kind in server | peerP | peerD | init"""
from __future__ import annotations

import os
import struct
import sys


def main(argv):
    kind, runs, seed, art = argv[0], int(argv[1]), int(argv[2]), argv[3]
    corpus = argv[4] if len(argv) > 4 else None
    verif = os.path.dirname(os.path.dirname(os.path.abspath(__file__)))
    repo = os.environ.get('VFW_REPO', '/repo')
    sys.path.insert(0, verif)
    sys.path.insert(0, os.path.join(repo, 'src'))
    sys.path.append(os.path.join(verif, '.deps'))
    import logging
    logging.disable(logging.CRITICAL)
    import atheris
    with atheris.instrument_imports(include=['aioslsk.protocol', 'aioslsk.network.connection']):
        from aioslsk.exceptions import MessageDeserializationError
        from aioslsk.network.connection import PeerConnection, PeerConnectionState, ServerConnection

    class _N:
        pass
    if kind == 'server':
        conn = ServerConnection('h', 1, _N())
    else:
        conn = PeerConnection('h', 1, _N(), connection_type='D' if kind == 'peerD' else 'P')
        if kind != 'init':
            conn.connection_state = PeerConnectionState.ESTABLISHED

    def one(data: bytes):
        if len(data) > 4096:
            return
        frame = struct.pack('<I', len(data)) + data
        try:
            conn.decode_message_data(frame)
        except MessageDeserializationError:
            return

    os.makedirs(art, exist_ok=True)
    args = [sys.argv[0], f'-runs={runs}', f'-seed={seed or 1}', f'-artifact_prefix={art}/', '-max_len=512',
            '-print_final_stats=0', '-verbosity=0']
    if corpus:
        args.append(corpus)
    atheris.Setup(args, one)
    atheris.Fuzz()


if __name__ == '__main__':
    main(sys.argv[1:])
