"""Simulated server, scripted peers and real-client helpers (DESIGN §2.3).

All protocol knowledge here is at message level: the repository's own message
classes are used to decode what the client sends and to build what the script
sends (the codec itself is the subject of C01/C02, not of the world model).
"""
from __future__ import annotations

import asyncio
import struct

from . import simloop, simnet, wire_ref

SERVER_HOST = 'server.slsknet.org'
SERVER_PORT = 2416


def M():
    from aioslsk.protocol import messages
    return messages


def mk_settings(name='me', password='pw', port=60000, obfuscated_port=60001, **kw):
    from aioslsk.settings import CredentialsSettings, Settings
    s = Settings(credentials=CredentialsSettings(username=name, password=password))
    s.network.upnp.enabled = False
    s.shares.scan_on_start = False
    s.network.listening.port = port
    s.network.listening.obfuscated_port = obfuscated_port
    if not port:
        from aioslsk.network.network import ListeningConnectionErrorMode
        s.network.listening.error_mode = ListeningConnectionErrorMode.ALL
    return s


class Recorder:
    """Collects events emitted on a client's event bus: (virtual time, event)."""

    def __init__(self, loop, bus, classes):
        self.loop = loop
        self.events = []
        for cls in classes:
            bus.register(cls, self._on_event)

    async def _on_event(self, event):
        self.events.append((self.loop.time(), event))

    def of(self, cls):
        return [e for _, e in self.events if isinstance(e, cls)]


class SimServer:
    """Protocol-level server model reachable at (SERVER_HOST, SERVER_PORT)."""

    def __init__(self, net: simnet.SimNet, host=SERVER_HOST, port=SERVER_PORT, delay=0.001, latency=0.001,
                 seg=None, gap=0.0):
        self.net = net
        self.loop = net.loop
        self.host, self.port = host, port
        self.listener = simnet.Listener('accept', delay, self._accept, latency, seg, gap)
        net.remote_listeners[(host, port)] = self.listener
        self.sessions: list[simnet.Endpoint] = []
        self.frames: list[tuple] = []        # (time, session index, message)
        self.undecodable: list[tuple] = []
        self.users: dict[str, dict] = {}     # username -> ip, port, obf_port, status, exists, privileged, stats
        self.session_user: dict[int, str] = {}
        self.login_mode = 'accept'           # accept | reject | garbled | eof | silent
        self.post_login: list = []           # messages sent right after a successful login reply
        self.auto = True
        self.handlers: dict = {}             # message class -> callable(server, session_index, msg) -> handled?
        self.add_user_behaviour = None       # callable(username, attempt_no) -> 'exists'|'missing'|'silent'
        self.add_user_attempts: dict[str, int] = {}
        self.reply_delay = 0.0
        self.connect_to_peer_hook = None     # callable(server, session_index, msg) -> handled?
        self.scripted_peers: dict[str, 'ScriptedPeer'] = {}
        self.clients: dict[str, object] = {}  # username -> real client (for relaying between real clients)

    # -- wiring -------------------------------------------------------------
    def _accept(self, ep: simnet.Endpoint):
        idx = len(self.sessions)
        self.sessions.append(ep)
        ep.on_data = lambda e, i=idx: self._on_data(i, e)
        if self.login_mode == 'eof_on_connect':
            ep.close()

    def _on_data(self, idx, ep):
        msgs = M()
        for fr in ep.frames():
            try:
                msg = msgs.ServerMessage.deserialize_request(fr)
            except Exception as exc:  # the codec is not under test here
                self.undecodable.append((self.loop.time(), idx, fr, repr(exc)))
                continue
            self.frames.append((self.loop.time(), idx, msg))
            if self.auto:
                self._handle(idx, ep, msg)

    def send(self, msg, session: int = -1, delay: float = 0.0):
        ep = self.sessions[session]
        data = msg if isinstance(msg, (bytes, bytearray)) else msg.serialize()
        ep.send(bytes(data), delay=delay or self.reply_delay)

    def session_of(self, username):
        for idx, name in self.session_user.items():
            if name == username and not self.sessions[idx].dead and not self.sessions[idx].peer_closed:
                return idx
        return None

    def received(self, cls=None, session=None):
        return [m for _, i, m in self.frames
                if (cls is None or isinstance(m, cls)) and (session is None or i == session)]

    def close_session(self, session=-1, kind='eof'):
        ep = self.sessions[session]
        if kind == 'reset':
            ep.reset()
        else:
            ep.close()

    # -- default behaviour ------------------------------------------------
    def _handle(self, idx, ep, msg):
        msgs = M()
        h = self.handlers.get(type(msg))
        if h is not None and h(self, idx, msg):
            return
        if isinstance(msg, msgs.Login.Request):
            self.session_user[idx] = msg.username
            if self.login_mode == 'accept':
                self.send(msgs.Login.Response(success=True, greeting='hi', ip='1.2.3.4', md5hash='x',
                                              privileged=False), idx)
                u = self.users.setdefault(msg.username, {})
                u.setdefault('ip', '10.1.0.%d' % (1 + len(self.users)))
                u.setdefault('status', 2)
                u['exists'] = True
                for m in self.post_login:
                    self.send(m, idx)
            elif self.login_mode == 'reject':
                self.send(msgs.Login.Response(success=False, reason='INVALIDPASS'), idx)
            elif self.login_mode == 'garbled':
                self.send(struct.pack('<II', 8, 1) + b'\xff\xff\xff\xff', idx)
            elif self.login_mode == 'eof':
                ep.close()
        elif isinstance(msg, msgs.SetListenPort.Request):
            name = self.session_user.get(idx)
            if name:
                u = self.users.setdefault(name, {})
                u['port'] = msg.port
                u['obf_port'] = msg.obfuscated_port or 0
        elif isinstance(msg, msgs.GetPeerAddress.Request):
            u = self.users.get(msg.username)
            if u and u.get('ip') and (u.get('port') or u.get('obf_port')) and u.get('online', True):
                self.send(msgs.GetPeerAddress.Response(
                    msg.username, u['ip'], u.get('port', 0),
                    obfuscated_port_amount=1 if u.get('obf_port') else 0,
                    obfuscated_port=u.get('obf_port', 0)), idx)
            else:
                self.send(msgs.GetPeerAddress.Response(msg.username, '0.0.0.0', 0, 0, 0), idx)
        elif isinstance(msg, msgs.AddUser.Request):
            n = self.add_user_attempts.get(msg.username, 0)
            self.add_user_attempts[msg.username] = n + 1
            beh = self.add_user_behaviour(msg.username, n) if self.add_user_behaviour else None
            if beh is None:
                u = self.users.get(msg.username)
                beh = 'exists' if (u is None or u.get('exists', True)) else 'missing'
            if beh == 'exists':
                from aioslsk.protocol.primitives import UserStats
                u = self.users.get(msg.username, {})
                self.send(msgs.AddUser.Response(
                    msg.username, exists=True, status=u.get('status', 2),
                    user_stats=UserStats(*u.get('stats', (1000, 5, 10, 2))), country_code='BE'), idx)
            elif beh == 'missing':
                self.send(msgs.AddUser.Response(msg.username, exists=False), idx)
        elif isinstance(msg, msgs.GetUserStatus.Request):
            u = self.users.get(msg.username, {})
            self.send(msgs.GetUserStatus.Response(msg.username, u.get('status', 0),
                                                  bool(u.get('privileged', False))), idx)
        elif isinstance(msg, msgs.GetUserStats.Request):
            from aioslsk.protocol.primitives import UserStats
            u = self.users.get(msg.username, {})
            self.send(msgs.GetUserStats.Response(msg.username, UserStats(*u.get('stats', (1000, 5, 10, 2)))), idx)
        elif isinstance(msg, msgs.CheckPrivileges.Request):
            self.send(msgs.CheckPrivileges.Response(0), idx)
        elif isinstance(msg, msgs.ConnectToPeer.Request):
            if self.connect_to_peer_hook and self.connect_to_peer_hook(self, idx, msg):
                return
            self._relay_connect_to_peer(idx, msg)
        elif isinstance(msg, msgs.CannotConnect.Request):
            # relay to the user that asked (msg.username)
            target = self.session_of(msg.username)
            if target is not None:
                self.send(msgs.CannotConnect.Response(msg.ticket), target)

    def _relay_connect_to_peer(self, idx, msg):
        msgs = M()
        sender = self.session_user.get(idx)
        peer = self.scripted_peers.get(msg.username)
        if peer is not None:
            peer.on_connect_to_peer(self, idx, sender, msg)
            return
        target = self.session_of(msg.username)
        su = self.users.get(sender, {})
        if target is not None and su.get('ip'):
            self.send(msgs.ConnectToPeer.Response(
                username=sender, typ=msg.typ, ip=su['ip'], port=su.get('port', 0), ticket=msg.ticket,
                privileged=False, obfuscated_port_amount=1 if su.get('obf_port') else 0,
                obfuscated_port=su.get('obf_port', 0)), target)
        else:
            self.send(msgs.CannotConnect.Response(msg.ticket), idx)


class PeerLink:
    """One scripted connection of a ScriptedPeer (either direction)."""

    def __init__(self, peer, ep, incoming_to_peer: bool):
        self.peer = peer
        self.ep = ep
        self.incoming_to_peer = incoming_to_peer   # True: the client connected to the peer
        self.init = None          # PeerInit / PeerPierceFirewall received from the client
        self.typ = None           # 'P' | 'D' | 'F'
        self.obfuscated = False
        self.messages: list[tuple] = []   # (time, message) decoded after init
        self.raw = bytearray()    # file-connection bytes after init

    def send_msg(self, msg, delay=0.0):
        data = msg if isinstance(msg, (bytes, bytearray)) else msg.serialize()
        if self.obfuscated:
            data = wire_ref.obf_encode(bytes(data), b'\x11\x22\x33\x44')
        self.ep.send(bytes(data), delay=delay)


class ScriptedPeer:
    """A remote user played by the harness.

    * listens at (ip, port) with a configurable connect behaviour
    * answers ConnectToPeer relays according to ``indirect`` ('pierce'|'cannot'|'silent')
    * decodes what the client sends and passes messages to ``on_message(link, msg)``
    """

    def __init__(self, world: 'World', name: str, ip: str, port: int = 2234, obf_port: int = 0,
                 direct: str = 'accept', direct_delay: float = 0.002, indirect: str = 'pierce',
                 indirect_delay: float = 0.002, latency: float = 0.001, seg=None, gap=0.0):
        self.world = world
        self.net = world.net
        self.loop = world.loop
        self.name = name
        self.ip, self.port, self.obf_port = ip, port, obf_port
        self.direct = direct
        self.indirect = indirect
        self.indirect_delay = indirect_delay
        self.latency = latency
        self.seg, self.gap = seg, gap
        self.links: list[PeerLink] = []
        self.on_message = None       # callable(link, msg)
        self.on_link = None          # callable(link) after init known
        self.on_file_data = None     # callable(link)
        self.connect_to_peer_requests: list = []
        world.server.users[name] = {'ip': ip, 'port': port, 'obf_port': obf_port, 'status': 2, 'exists': True}
        world.server.scripted_peers[name] = self
        if port:
            self.net.remote_listeners[(ip, port)] = simnet.Listener(
                direct, direct_delay, lambda ep: self._accepted(ep, False), latency, seg, gap)
        if obf_port:
            self.net.remote_listeners[(ip, obf_port)] = simnet.Listener(
                direct, direct_delay, lambda ep: self._accepted(ep, True), latency, seg, gap)

    def set_direct(self, outcome, delay=None):
        for key in ((self.ip, self.port), (self.ip, self.obf_port)):
            lst = self.net.remote_listeners.get(key)
            if lst:
                lst.outcome = outcome
                if delay is not None:
                    lst.delay = delay

    # client -> peer (direct)
    def _accepted(self, ep, obfuscated):
        link = PeerLink(self, ep, True)
        link.obfuscated = obfuscated
        self.links.append(link)
        ep.on_data = lambda e: self._on_data(link)
        return link

    # peer -> client
    def connect(self, typ='P', ticket=0, port=None, init='peer_init', obfuscated=False, seg=None, gap=0.0,
                latency=None) -> PeerLink:
        """Open a connection to the client's listening port and send the init message."""
        msgs = M()
        port = port or self.world.client_port(obfuscated)
        ep = self.net.connect_in(port, peername=(self.ip, 50000 + len(self.links)),
                                 latency=self.latency if latency is None else latency,
                                 seg=self.seg if seg is None else seg, gap=gap or self.gap)
        link = PeerLink(self, ep, False)
        link.obfuscated = obfuscated
        link.typ = typ
        self.links.append(link)
        ep.on_data = lambda e: self._on_data(link)
        if init == 'peer_init':
            link.send_msg(msgs.PeerInit.Request(self.name, typ, ticket))
            link.init = 'sent-init'
        elif init == 'pierce':
            link.send_msg(msgs.PeerPierceFirewall.Request(ticket))
            link.init = 'sent-pierce'
        if typ != 'P':
            link.obfuscated = False if link.init else link.obfuscated
        if self.on_link and link.init:
            self.on_link(link)
        return link

    def on_connect_to_peer(self, server, session_idx, sender, msg):
        """The client asked the server to make us connect to it."""
        self.connect_to_peer_requests.append((self.loop.time(), msg))
        msgs = M()
        if self.indirect == 'pierce':
            def go():
                if self.world.net.can_connect_in(self.world.client_port(False)):
                    link = self.connect(typ=msg.typ, ticket=msg.ticket, init='pierce')
                    link.typ = msg.typ
            self.loop.call_later(max(simnet.MIN_LATENCY, self.indirect_delay), go)
        elif self.indirect == 'cannot':
            server.send(msgs.CannotConnect.Response(msg.ticket), session_idx, delay=self.indirect_delay)
        # 'silent': nothing

    def _on_data(self, link: PeerLink):
        msgs = M()
        ep = link.ep
        while True:
            if link.init is None:
                frames = ep.frames(obfuscated=link.obfuscated)
                if not frames:
                    return
                fr = frames[0]
                # put back the rest
                rest = b''.join(frames[1:])
                if rest:
                    ep.inbuf[0:0] = rest
                plain = wire_ref.obf_decode(fr) if link.obfuscated else fr
                try:
                    link.init = msgs.PeerInitializationMessage.deserialize_request(plain)
                except Exception as exc:
                    link.init = ('undecodable', plain, repr(exc))
                    return
                if isinstance(link.init, msgs.PeerInit.Request):
                    link.typ = link.init.typ
                if link.typ != 'P':
                    link.obfuscated = False
                if self.on_link:
                    self.on_link(link)
                continue
            if link.typ == 'F':
                if ep.inbuf:
                    link.raw += ep.take()
                    if self.on_file_data:
                        self.on_file_data(link)
                return
            frames = ep.frames(obfuscated=link.obfuscated)
            if not frames:
                return
            for fr in frames:
                plain = wire_ref.obf_decode(fr) if link.obfuscated else fr
                try:
                    if link.typ == 'D':
                        msg = msgs.DistributedMessage.deserialize_request(plain)
                    else:
                        msg = msgs.PeerMessage.deserialize_request(plain)
                except Exception as exc:
                    msg = ('undecodable', plain, repr(exc))
                link.messages.append((self.loop.time(), msg))
                if self.on_message:
                    self.on_message(link, msg)

    def received(self, cls=None):
        return [m for l in self.links for _, m in l.messages if cls is None or isinstance(m, cls)]

    def links_of(self, typ):
        return [l for l in self.links if l.typ == typ]


class World:
    """A virtual loop + simulated network + simulated server (+ clients)."""

    def __init__(self, loop, server_latency=0.001, server_seg=None):
        self.loop = loop
        self.net = simnet.SimNet(loop).install()
        self.server = SimServer(self.net, latency=server_latency, seg=server_seg)
        self.clients: list = []
        self.peers: dict[str, ScriptedPeer] = {}

    def client_port(self, obfuscated=False, client=None):
        c = client or self.clients[0]
        return c.settings.network.listening.obfuscated_port if obfuscated else c.settings.network.listening.port

    def add_peer(self, name, ip=None, **kw) -> ScriptedPeer:
        ip = ip or '20.0.0.%d' % (1 + len(self.peers))
        p = ScriptedPeer(self, name, ip, **kw)
        self.peers[name] = p
        return p

    def make_client(self, settings, **kw):
        from aioslsk.client import SoulSeekClient
        c = SoulSeekClient(settings, **kw)
        self.clients.append(c)
        self.server.clients[settings.credentials.username] = c
        return c

    async def start_client(self, settings, login=True, **kw):
        c = self.make_client(settings, **kw)
        await c.start()
        if login:
            await c.login()
        return c

    async def quiesce(self, dt=1.0):
        await asyncio.sleep(dt)

    def library_tasks(self, exclude=()):
        cur = asyncio.current_task()
        return [t for t in asyncio.all_tasks(self.loop) if t is not cur and not t.done() and t not in exclude]


def run_world(main, **loop_kw):
    """``main(world)`` coroutine on a fresh loop.  Returns (result, loop_errors)."""
    async def _main(loop):
        world = World(loop)
        return await main(world)
    try:
        return simloop.run_case_on_loop(_main, **loop_kw)
    finally:
        simnet.SimNet.uninstall()
