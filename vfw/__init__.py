"""Verification framework for JurgenR/aioslsk (property-based testing / fuzzing)."""
