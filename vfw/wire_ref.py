"""Independent reference codec driven only by ``pinned/layout.json`` (DESIGN §2.4).

Values are plain JSON-able Python: ints, bools, str, ``{"$b": hex}`` for byte
blobs, dicts for records, lists for arrays.  Nothing here imports aioslsk.
"""
from __future__ import annotations

import json
import os
import struct
import zlib

_PINNED = os.path.join(os.path.dirname(os.path.dirname(os.path.abspath(__file__))), 'pinned')

with open(os.path.join(_PINNED, 'layout.json')) as _fh:
    LAYOUT = json.load(_fh)

RECORDS = LAYOUT['records']
MESSAGES = LAYOUT['messages']
BY_KEY = {f"{m['group']}:{m['name']}:{m['kind']}": m for m in MESSAGES}

_INT = {'uint8': '<B', 'uint16': '<H', 'uint32': '<I', 'uint64': '<Q', 'int32': '<i'}
INT_RANGE = {'uint8': (0, 2 ** 8 - 1), 'uint16': (0, 2 ** 16 - 1), 'uint32': (0, 2 ** 32 - 1),
             'uint64': (0, 2 ** 64 - 1), 'int32': (-2 ** 31, 2 ** 31 - 1), 'peer_init_ticket': (0, 2 ** 32 - 1)}


class RefDecodeError(Exception):
    pass


def msg_key(m) -> str:
    return f"{m['group']}:{m['name']}:{m['kind']}"


# ---------------------------------------------------------------------------
# encoding

def _enc_value(typ: str, value, out: bytearray, subtype: str | None = None):
    if typ in _INT:
        out += struct.pack(_INT[typ], value)
    elif typ == 'peer_init_ticket':
        out += struct.pack('<I', value)
    elif typ == 'boolean':
        out += b'\x01' if value else b'\x00'
    elif typ == 'string':
        raw = value.encode('utf-8')
        out += struct.pack('<I', len(raw)) + raw
    elif typ == 'bytearr':
        raw = bytes.fromhex(value['$b'])
        out += struct.pack('<I', len(raw)) + raw
    elif typ == 'ipaddr':
        parts = [int(p) for p in value.split('.')]
        out += bytes(reversed(parts))
    elif typ == 'array':
        out += struct.pack('<I', len(value))
        for item in value:
            _enc_value(subtype, item, out)
    elif typ.startswith('record:'):
        _enc_fields(RECORDS[typ[7:]], value, out)
    else:
        raise ValueError(f"unknown wire type {typ}")


def field_present(f, values: dict) -> bool:
    """Is field ``f`` on the wire for this value map? (pinned semantics:
    optional -> present iff not None; if_true/if_false -> condition on the
    named earlier field)"""
    v = values.get(f['name'])
    if f.get('optional') and v is None:
        return False
    if 'if_true' in f:
        return bool(values.get(f['if_true']))
    if 'if_false' in f:
        return not bool(values.get(f['if_false']))
    return True


def _enc_fields(fields, values: dict, out: bytearray):
    for f in fields:
        if not field_present(f, values):
            continue
        _enc_value(f['type'], values[f['name']], out, f.get('subtype'))


def encode_payload(key: str, values: dict) -> bytes:
    out = bytearray()
    _enc_fields(BY_KEY[key]['fields'], values, out)
    return bytes(out)


def encode_code(key: str) -> bytes:
    m = BY_KEY[key]
    return struct.pack('<B' if m['code_width'] == 1 else '<I', m['code'])


def encode(key: str, values: dict) -> bytes:
    """Full frame.  For compressed messages the payload is deflated with the
    default zlib level (compare after decompression, not bytewise)."""
    m = BY_KEY[key]
    payload = encode_payload(key, values)
    if m['compressed']:
        payload = zlib.compress(payload)
    code = encode_code(key)
    return struct.pack('<I', len(code) + len(payload)) + code + payload


# ---------------------------------------------------------------------------
# decoding

def _need(data, pos, n):
    if pos + n > len(data):
        raise RefDecodeError(f"need {n} bytes at {pos}, have {len(data) - pos}")


def _dec_value(typ: str, data: bytes, pos: int, subtype: str | None = None):
    if typ in _INT:
        size = struct.calcsize(_INT[typ])
        _need(data, pos, size)
        return pos + size, struct.unpack_from(_INT[typ], data, pos)[0]
    if typ == 'peer_init_ticket':
        if len(data) - pos == 4:
            return pos + 4, struct.unpack_from('<I', data, pos)[0]
        _need(data, pos, 8)
        return pos + 8, struct.unpack_from('<Q', data, pos)[0]
    if typ == 'boolean':
        _need(data, pos, 1)
        return pos + 1, data[pos] != 0
    if typ == 'string':
        _need(data, pos, 4)
        (n,) = struct.unpack_from('<I', data, pos)
        _need(data, pos + 4, n)
        raw = data[pos + 4:pos + 4 + n]
        try:
            return pos + 4 + n, raw.decode('utf-8')
        except UnicodeDecodeError:
            try:
                return pos + 4 + n, raw.decode('cp1252')
            except UnicodeDecodeError as exc:
                raise RefDecodeError(str(exc))
    if typ == 'bytearr':
        _need(data, pos, 4)
        (n,) = struct.unpack_from('<I', data, pos)
        raw = data[pos + 4:pos + 4 + n]
        return pos + 4 + n, {'$b': raw.hex()}
    if typ == 'ipaddr':
        _need(data, pos, 4)
        return pos + 4, '.'.join(str(b) for b in reversed(data[pos:pos + 4]))
    if typ == 'array':
        _need(data, pos, 4)
        (n,) = struct.unpack_from('<I', data, pos)
        pos += 4
        items = []
        for _ in range(n):
            pos, item = _dec_value(subtype, data, pos)
            items.append(item)
        return pos, items
    if typ.startswith('record:'):
        return _dec_fields(RECORDS[typ[7:]], data, pos)
    raise ValueError(f"unknown wire type {typ}")


def _dec_fields(fields, data: bytes, pos: int):
    values = {}
    for f in fields:
        if 'if_true' in f and not values.get(f['if_true']):
            continue
        if 'if_false' in f and values.get(f['if_false']):
            continue
        if f.get('optional') and pos >= len(data):
            continue
        pos, values[f['name']] = _dec_value(f['type'], data, pos, f.get('subtype'))
    return pos, values


def with_defaults(key_or_fields, values: dict) -> dict:
    """Fill absent fields with the pinned class default."""
    fields = BY_KEY[key_or_fields]['fields'] if isinstance(key_or_fields, str) else key_or_fields
    out = {}
    for f in fields:
        if f['name'] in values:
            out[f['name']] = values[f['name']]
        else:
            out[f['name']] = f.get('default')
    return out


def decode(key: str, frame: bytes) -> dict:
    m = BY_KEY[key]
    _need(frame, 0, 4 + m['code_width'])
    pos = 4
    code = frame[pos] if m['code_width'] == 1 else struct.unpack_from('<I', frame, pos)[0]
    if code != m['code']:
        raise RefDecodeError(f"code {code} != {m['code']}")
    pos += m['code_width']
    body = frame[pos:]
    if m['compressed']:
        try:
            body = zlib.decompress(body)
        except zlib.error as exc:
            raise RefDecodeError(str(exc))
    _, values = _dec_fields(m['fields'], body, 0)
    return values


def dispatch(group: str, kind: str, frame: bytes) -> str | None:
    """Which message key does the pinned table select for this frame?"""
    width = 1 if group in ('peer_init', 'distributed') else 4
    if len(frame) < 4 + width:
        return None
    code = frame[4] if width == 1 else struct.unpack_from('<I', frame, 4)[0]
    for m in MESSAGES:
        if m['group'] == group and m['kind'] == kind and m['code'] == code:
            return msg_key(m)
    return None


# ---------------------------------------------------------------------------
# obfuscation reference (SOULSEEK.rst: key rotated left by one bit per 4-byte word)

def _rotl32(x: int, n: int) -> int:
    n %= 32
    return ((x << n) | (x >> (32 - n))) & 0xFFFFFFFF if n else x


def obf_xor(key: bytes, data: bytes) -> bytes:
    k = int.from_bytes(key, 'little')
    out = bytearray(len(data))
    for i, b in enumerate(data):
        word = i // 4
        kw = _rotl32(k, word + 1).to_bytes(4, 'little')
        out[i] = b ^ kw[i % 4]
    return bytes(out)


def obf_encode(data: bytes, key: bytes) -> bytes:
    return key + obf_xor(key, data)


def obf_decode(data: bytes) -> bytes:
    return obf_xor(data[:4], data[4:])
